#!/bin/bash
# builds the shim against $VERIF_REPO/src (default /repo/src) as it is now: plain and (with "san") ASan+UBSan variants
set -e
here="$(cd "$(dirname "$0")" && pwd)"
repo="${VERIF_REPO:-/repo}"
out="${VERIF_NATIVE_BUILD:-$here/build}"; mkdir -p "$out"
srcs="$repo/src/permanent.cpp $repo/src/permanent_laplace.cpp $repo/src/torontonian.cpp $repo/src/loop_torontonian.cpp $repo/src/torontonian_common.cpp $repo/src/pfaffian.cpp"
g++ -O2 -fopenmp -std=c++17 -fPIC -shared -I"$repo/src" "$here/shim.cpp" $srcs -o "$out/libvf.so"
if [ "$1" = "san" ]; then
  g++ -O1 -g -fopenmp -std=c++17 -fsanitize=address,undefined -fno-sanitize-recover=undefined -fno-omit-frame-pointer -I"$repo/src" "$here/san_driver.cpp" "$here/shim.cpp" $srcs -o "$out/vf_san"
fi
echo built
