// C ABI shim around the pybind-free kernels in /repo/src (built at check time from the current tree).
// The library also interposes std::thread::hardware_concurrency() so that the permanent's job partition
// can be forced to every value the query could return (C11).
#include <complex>
#include <cstdint>
#include <cstring>
#include <thread>
#include <vector>

#include "matrix.hpp"
#include "permanent.hpp"
#include "permanent_laplace.hpp"
#include "torontonian.hpp"
#include "loop_torontonian.hpp"
#include "pfaffian.hpp"
#include "n_aryGrayCodeCounter.hpp"

static unsigned int g_forced_concurrency = 4;
static int g_use_forced = 0;

// interposition: the definition in this shared object wins over libstdc++'s
unsigned int std::thread::hardware_concurrency() noexcept { return g_use_forced ? g_forced_concurrency : 4u; }

extern "C" {

void vf_set_concurrency(int use_forced, unsigned int k) { g_use_forced = use_forced; g_forced_concurrency = k; }
unsigned int vf_get_concurrency() { return std::thread::hardware_concurrency(); }

// matrix given as interleaved (re, im), row-major n_rows x n_cols; rows/cols multiplicities
int vf_permanent_d(const double *a, int n_rows, int n_cols, const int *rows, const int *cols, double *out)
{
    Matrix<std::complex<double>> A(n_rows, n_cols);
    for (int i = 0; i < n_rows * n_cols; i++) A[i] = std::complex<double>(a[2 * i], a[2 * i + 1]);
    Vector<int> r(n_rows), c(n_cols);
    for (int i = 0; i < n_rows; i++) r[i] = rows[i];
    for (int i = 0; i < n_cols; i++) c[i] = cols[i];
    try {
        std::complex<double> p = permanent_cpp<double>(A, r, c);
        out[0] = p.real(); out[1] = p.imag();
    } catch (...) { return 1; }
    return 0;
}

int vf_permanent_f(const float *a, int n_rows, int n_cols, const int *rows, const int *cols, float *out)
{
    Matrix<std::complex<float>> A(n_rows, n_cols);
    for (int i = 0; i < n_rows * n_cols; i++) A[i] = std::complex<float>(a[2 * i], a[2 * i + 1]);
    Vector<int> r(n_rows), c(n_cols);
    for (int i = 0; i < n_rows; i++) r[i] = rows[i];
    for (int i = 0; i < n_cols; i++) c[i] = cols[i];
    try {
        std::complex<float> p = permanent_cpp<float>(A, r, c);
        out[0] = p.real(); out[1] = p.imag();
    } catch (...) { return 1; }
    return 0;
}

// Laplace-expansion variant: returns a vector (length written to *n_out, at most max_out complex numbers)
int vf_permanent_laplace_d(const double *a, int n_rows, int n_cols, const int *rows, const int *cols, double *out, int max_out, int *n_out)
{
    Matrix<std::complex<double>> A(n_rows, n_cols);
    for (int i = 0; i < n_rows * n_cols; i++) A[i] = std::complex<double>(a[2 * i], a[2 * i + 1]);
    Vector<int> r(n_rows), c(n_cols);
    for (int i = 0; i < n_rows; i++) r[i] = rows[i];
    for (int i = 0; i < n_cols; i++) c[i] = cols[i];
    try {
        Vector<std::complex<double>> v = permanent_laplace_cpp<double>(A, r, c);
        *n_out = (int)v.size();
        for (int i = 0; i < (int)v.size() && i < max_out; i++) { out[2 * i] = v[i].real(); out[2 * i + 1] = v[i].imag(); }
    } catch (...) { return 1; }
    return 0;
}

// the arrays are passed through: the caller checks byte equality afterwards (C12)
double vf_torontonian_d(double *m, int n) { Matrix<double> M(n, n, m); return torontonian_cpp<double>(M); }
float vf_torontonian_f(float *m, int n) { Matrix<float> M(n, n, m); return torontonian_cpp<float>(M); }
double vf_loop_torontonian_d(double *m, double *d, int n) { Matrix<double> M(n, n, m); Vector<double> D(n, d); return loop_torontonian_cpp<double>(M, D); }
double vf_pfaffian_d(double *m, int n) { Matrix<double> M(n, n, m); return pfaffian_cpp<double>(M); }
float vf_pfaffian_f(float *m, int n) { Matrix<float> M(n, n, m); return pfaffian_cpp<float>(M); }

// walk the real Gray-code counter from initial_offset to offset_max; writes the gray code after every step
// (including the initial one) into out (row-major, n ints per row); returns the number of rows written
int vf_gray_walk(const int *limits, int n, int64_t initial_offset, int64_t offset_max, int *out, int max_rows, int *changed, int *prev, int *val)
{
    std::vector<int> lim(limits, limits + n);
    n_aryGrayCodeCounter counter(lim.data(), (size_t)n, initial_offset);
    counter.set_offset_max(offset_max);
    int rows = 0;
    int *g = counter.get();
    if (rows < max_rows) { memcpy(out + rows * n, g, n * sizeof(int)); changed[rows] = -1; prev[rows] = 0; val[rows] = 0; rows++; }
    for (int64_t i = initial_offset + 1; i < offset_max + 1; i++) {
        int ci = 0, pv = 0, v = 0;
        if (counter.next(ci, pv, v)) break;
        if (rows < max_rows) { memcpy(out + rows * n, g, n * sizeof(int)); changed[rows] = ci; prev[rows] = pv; val[rows] = v; rows++; }
    }
    return rows;
}

}
