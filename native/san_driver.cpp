// sanitizer driver: reads "P n_rows n_cols (re im)* rows* cols*" lines and calls the kernels through the shim
#include <cstdio>
#include <iostream>
#include <sstream>
#include <string>
#include <vector>
extern "C" int vf_permanent_d(const double *a, int n_rows, int n_cols, const int *rows, const int *cols, double *out);
extern "C" int vf_permanent_f(const float *a, int n_rows, int n_cols, const int *rows, const int *cols, float *out);
extern "C" int vf_permanent_laplace_d(const double *a, int n_rows, int n_cols, const int *rows, const int *cols, double *out, int max_out, int *n_out);
int main()
{
    std::string line;
    while (std::getline(std::cin, line)) {
        std::istringstream is(line);
        char tag; int r, c;
        if (!(is >> tag >> r >> c)) continue;
        std::vector<double> a(2 * r * c); std::vector<float> af(2 * r * c);
        for (int i = 0; i < 2 * r * c; i++) { is >> a[i]; af[i] = (float)a[i]; }
        std::vector<int> rows(r), cols(c);
        for (int i = 0; i < r; i++) is >> rows[i];
        for (int i = 0; i < c; i++) is >> cols[i];
        double out[2]; float outf[2];
        vf_permanent_d(a.data(), r, c, rows.data(), cols.data(), out);
        vf_permanent_f(af.data(), r, c, rows.data(), cols.data(), outf);
        std::printf("%g %g\n", out[0], out[1]);
    }
    return 0;
}
