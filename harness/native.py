"""ctypes binding of /verif/native/build/libvf.so (rebuilt from /repo/src by native/build.sh)."""
import ctypes
import os
import subprocess
from pathlib import Path

import numpy as np

from .common import VERIF, MachineryError

_lib = None


def build_dir():
    return Path(os.environ.get("VERIF_NATIVE_BUILD", str(VERIF / "native" / "build")))


def build(san=False):
    p = subprocess.run([str(VERIF / "native" / "build.sh")] + (["san"] if san else []), capture_output=True, text=True)
    if p.returncode != 0:
        raise MachineryError("native build failed:\n" + p.stdout[-2000:] + p.stderr[-3000:])


def lib(rebuild=True):
    global _lib
    if _lib is None:
        if rebuild:
            build()
        _lib = ctypes.CDLL(str(build_dir() / "libvf.so"))
        _lib.vf_torontonian_d.restype = ctypes.c_double
        _lib.vf_loop_torontonian_d.restype = ctypes.c_double
        _lib.vf_pfaffian_d.restype = ctypes.c_double
        _lib.vf_torontonian_f.restype = ctypes.c_float
        _lib.vf_pfaffian_f.restype = ctypes.c_float
        _lib.vf_get_concurrency.restype = ctypes.c_uint
    return _lib


def set_concurrency(k):
    if k is None:
        lib().vf_set_concurrency(0, 0)
    else:
        lib().vf_set_concurrency(1, int(k))


def _iptr(a):
    return a.ctypes.data_as(ctypes.POINTER(ctypes.c_int))


def permanent(A, rows, cols, dtype=np.float64):
    A = np.asarray(A, dtype=np.complex128)
    rows = np.ascontiguousarray(rows, dtype=np.int32)
    cols = np.ascontiguousarray(cols, dtype=np.int32)
    inter = np.empty(A.size * 2, dtype=dtype)
    inter[0::2] = A.real.ravel()
    inter[1::2] = A.imag.ravel()
    out = np.zeros(2, dtype=dtype)
    fn = lib().vf_permanent_d if dtype == np.float64 else lib().vf_permanent_f
    rc = fn(inter.ctypes.data_as(ctypes.c_void_p), A.shape[0], A.shape[1], _iptr(rows), _iptr(cols), out.ctypes.data_as(ctypes.c_void_p))
    if rc != 0:
        raise ValueError("permanent_cpp threw")
    return complex(out[0], out[1])


def permanent_laplace(A, rows, cols):
    A = np.asarray(A, dtype=np.complex128)
    rows = np.ascontiguousarray(rows, dtype=np.int32)
    cols = np.ascontiguousarray(cols, dtype=np.int32)
    inter = np.empty(A.size * 2, dtype=np.float64)
    inter[0::2] = A.real.ravel()
    inter[1::2] = A.imag.ravel()
    out = np.zeros(2 * 64, dtype=np.float64)
    n = ctypes.c_int(0)
    rc = lib().vf_permanent_laplace_d(inter.ctypes.data_as(ctypes.c_void_p), A.shape[0], A.shape[1], _iptr(rows), _iptr(cols),
                                      out.ctypes.data_as(ctypes.c_void_p), 64, ctypes.byref(n))
    if rc != 0:
        raise ValueError("permanent_laplace_cpp threw")
    return [complex(out[2 * i], out[2 * i + 1]) for i in range(n.value)]


def gray_walk(limits, initial_offset, offset_max, max_rows=100000):
    limits = np.ascontiguousarray(limits, dtype=np.int32)
    n = len(limits)
    out = np.zeros((max_rows, n), dtype=np.int32)
    ch = np.zeros(max_rows, dtype=np.int32)
    pv = np.zeros(max_rows, dtype=np.int32)
    vl = np.zeros(max_rows, dtype=np.int32)
    rows = lib().vf_gray_walk(_iptr(limits), n, ctypes.c_int64(initial_offset), ctypes.c_int64(offset_max), _iptr(out), max_rows,
                              _iptr(ch), _iptr(pv), _iptr(vl))
    return out[:rows], ch[:rows], pv[:rows], vl[:rows]


def torontonian(M):
    M = np.ascontiguousarray(M, dtype=np.float64)
    return lib().vf_torontonian_d(M.ctypes.data_as(ctypes.c_void_p), M.shape[0])


def loop_torontonian(M, d):
    M = np.ascontiguousarray(M, dtype=np.float64)
    d = np.ascontiguousarray(d, dtype=np.float64)
    return lib().vf_loop_torontonian_d(M.ctypes.data_as(ctypes.c_void_p), d.ctypes.data_as(ctypes.c_void_p), M.shape[0])


def pfaffian(M, inplace_probe=False):
    M2 = np.array(M, dtype=np.float64, order="C")
    r = lib().vf_pfaffian_d(M2.ctypes.data_as(ctypes.c_void_p), M2.shape[0])
    if inplace_probe:
        return r, M2
    return r
