"""Natural (unforced) executions of adaptive programs on every simulator, for trace validation."""
import random
import warnings

import numpy as np


def _purefock(pq, rng, d):
    cutoff = 8
    occ = [rng.choice([0, 1, 1, 2]) for _ in range(d)]
    while sum(occ) > 4:
        occ[rng.randrange(d)] = 0
    ins = [pq.NumberState(occ).on_modes(*range(d))]
    active = list(range(d))
    nmeas = 0
    for _ in range(rng.randint(2, 5)):
        r = rng.random()
        if r < 0.35 and len(active) >= 2:
            a, b = rng.sample(active, 2)
            g = pq.Beamsplitter(theta=rng.choice([np.pi / 4, 0.3, np.pi / 3]), phi=rng.choice([0, np.pi / 2])).on_modes(a, b)
        elif r < 0.55 and active:
            phi = rng.choice([0.3, "0.1 * x[-1]" if nmeas else 0.4, (lambda x: 0.2 * len(x))])
            g = pq.Phaseshifter(phi=phi).on_modes(rng.choice(active))
        elif r < 0.65 and active:
            g = pq.Kerr(xi=0.2).on_modes(rng.choice(active))
        elif len(active) >= 2:
            k = rng.randint(1, len(active) - 1)
            ms = rng.sample(active, k)
            g = pq.ParticleNumberMeasurement().on_modes(*ms)
            active = [m for m in active if m not in ms]
            nmeas += 1
            ins.append(g)
            continue
        else:
            continue
        if nmeas and rng.random() < 0.5:
            g = g.when(rng.choice(["x[-1] > 0", "x[0] == 0", "x[-1] == 1 or x[0] == 2", lambda x: sum(x) % 2 == 0]))
        ins.append(g)
    if active and rng.random() < 0.8:
        ins.append(pq.ParticleNumberMeasurement().on_modes(*active) if rng.random() < 0.5 else pq.ParticleNumberMeasurement())
    return pq.PureFockSimulator(d=d, config=pq.Config(cutoff=cutoff, seed_sequence=rng.randrange(10 ** 6))), ins


def _fock(pq, rng, d):
    ins = [pq.Vacuum()]
    ins.append(pq.Displacement(r=0.6).on_modes(0))
    if d > 1:
        ins.append(pq.Beamsplitter(theta=0.7, phi=0.2).on_modes(0, 1))
    if rng.random() < 0.5:
        ins.append(pq.Squeezing(r=0.3).on_modes(d - 1))
    ms = rng.sample(range(d), rng.randint(1, d))
    ins.append(pq.ParticleNumberMeasurement().on_modes(*ms))
    return pq.FockSimulator(d=d, config=pq.Config(cutoff=4, seed_sequence=rng.randrange(10 ** 6))), ins


def _gaussian(pq, rng, d):
    ins = [pq.Vacuum()]
    for m in range(d):
        ins.append(pq.Squeezing(r=rng.choice([0.2, 0.5])).on_modes(m))
    if d > 1:
        ins.append(pq.Beamsplitter(theta=np.pi / 4).on_modes(0, 1))
    active = list(range(d))
    nmeas = 0
    for _ in range(rng.randint(0, 2)):
        if len(active) < 2:
            break
        m = rng.choice(active)
        M = rng.choice([pq.HomodyneMeasurement(phi=0.0), pq.HeterodyneMeasurement(),
                        pq.GeneraldyneMeasurement(detection_covariance=np.array([[2.0, 0], [0, 0.5]]))])
        ins.append(M.on_modes(m))
        active.remove(m)
        nmeas += 1
        g = pq.Displacement(r=rng.choice([0.3, "0.1 * x[0]", lambda x: 0.1 * abs(x[-1])])).on_modes(rng.choice(active))
        if rng.random() < 0.5:
            g = g.when("x[0] > 0")
        ins.append(g)
    final = rng.choice(["pnm", "thr", "hom", "none"])
    if final == "pnm":
        ins.append(pq.ParticleNumberMeasurement().on_modes(*active))
    elif final == "thr":
        ins.append(pq.ThresholdMeasurement().on_modes(*active))
    elif final == "hom":
        ins.append(pq.HomodyneMeasurement().on_modes(*active))
    return pq.GaussianSimulator(d=d, config=pq.Config(cutoff=5, seed_sequence=rng.randrange(10 ** 6))), ins


def _sampling(pq, rng, d):
    occ = [rng.choice([0, 1, 1, 2]) for _ in range(d)]
    if sum(occ) == 0:
        occ[0] = 1
    while sum(occ) > 4:
        occ[rng.randrange(d)] = 0
    ins = [pq.NumberState(occ).on_modes(*range(d))]
    from scipy.stats import unitary_group
    U = unitary_group.rvs(d, random_state=rng.randrange(10 ** 6)) if d > 1 else np.array([[1.0 + 0j]])
    ins.append(pq.Interferometer(U).on_modes(*range(d)))
    active = list(range(d))
    nmeas = 0
    if d >= 3 and rng.random() < 0.6:
        ms = rng.sample(active, 1)
        ins.append(pq.ParticleNumberMeasurement().on_modes(*ms))
        active = [m for m in active if m not in ms]
        nmeas += 1
        if len(active) >= 2:
            g = pq.Beamsplitter(theta=0.4).on_modes(*active[:2])
            if rng.random() < 0.5:
                g = g.when("x[-1] > 0")
            ins.append(g)
    ins.append(pq.ParticleNumberMeasurement().on_modes(*active))
    return pq.SamplingSimulator(d=d, config=pq.Config(seed_sequence=rng.randrange(10 ** 6))), ins


def _sampling_imperfect(pq, rng, d):
    d = 3
    occ = rng.choice([[1, 1, 0], [2, 0, 1], [1, 1, 1]])
    from scipy.stats import unitary_group
    U = unitary_group.rvs(d, random_state=rng.randrange(10 ** 6))
    eff = np.array([[1.0, 0.2, 0.1, 0.0], [0.0, 0.8, 0.3, 0.2], [0.0, 0.0, 0.6, 0.3], [0.0, 0.0, 0.0, 0.5]])
    ins = [pq.NumberState(occ).on_modes(0, 1, 2), pq.Interferometer(U).on_modes(0, 1, 2),
           pq.ImperfectParticleNumberMeasurement(detector_efficiency_matrix=eff).on_modes(rng.choice([0, 2])),
           pq.Beamsplitter(theta=rng.choice([0.4, np.pi / 2])).on_modes(*rng.choice([(0, 1), (1, 0)])) if False else None]
    ins = [x for x in ins if x is not None]
    rest = [m for m in range(3) if m != ins[-1].modes[0]]
    ins.append(pq.Beamsplitter(theta=rng.choice([0.4, np.pi / 2])).on_modes(*rest))
    ins.append(pq.ParticleNumberMeasurement().on_modes(*rest))
    return pq.PassiveSimulator(d=d, config=pq.Config(cutoff=4, seed_sequence=rng.randrange(10 ** 6))), ins


def _gaussian_chain(pq, rng, d):
    d = 2
    ins = [pq.Vacuum(), pq.Squeezing(r=0.4).on_modes(0), pq.Beamsplitter(theta=np.pi / 4).on_modes(0, 1),
           pq.HomodyneMeasurement().on_modes(0), pq.Displacement(r="0.1 * x[0]").on_modes(1), pq.HomodyneMeasurement().on_modes(1)]
    return pq.GaussianSimulator(d=d, config=pq.Config(seed_sequence=rng.randrange(10 ** 6))), ins


def _ffock(pq, rng, d):
    occ = [rng.choice([0, 1]) for _ in range(d)]
    ins = [pq.NumberState(occ).on_modes(*range(d))]
    for a in range(d - 1):
        ins.append(pq.Beamsplitter(theta=rng.choice([np.pi / 4, 0.3]), phi=0.1).on_modes(a, a + 1))
    active = list(range(d))
    if d >= 3 and rng.random() < 0.6:
        m = rng.choice(active)
        ins.append(pq.ParticleNumberMeasurement().on_modes(m))
        active.remove(m)
    ins.append(pq.ParticleNumberMeasurement().on_modes(*active))
    return pq.fermionic.PureFockSimulator(d=d, config=pq.Config(cutoff=d + 1, seed_sequence=rng.randrange(10 ** 6))), ins


def _fgauss(pq, rng, d):
    occ = [rng.choice([0, 1]) for _ in range(d)]
    ins = [pq.NumberState(occ).on_modes(*range(d))]
    for a in range(d - 1):
        ins.append(pq.Beamsplitter(theta=0.4, phi=0.1).on_modes(a, a + 1))
    ins.append(pq.ParticleNumberMeasurement())
    return pq.fermionic.GaussianSimulator(d=d, config=pq.Config(seed_sequence=rng.randrange(10 ** 6))), ins


FAMILIES = {"SamplingImperfect": _sampling_imperfect, "GaussianChain": _gaussian_chain, "PureFock": _purefock, "Fock": _fock, "Gaussian": _gaussian, "Sampling": _sampling,
            "FermionicFock": _ffock, "FermionicGaussian": _fgauss}


def run_natural(pq, rec, seed, per_family, shots_list=(1, 2, 5, None, 49, 23, 7, 50)):
    """executes random programs under the recorder; exceptions are part of the behaviour (logged in the trace)"""
    rng = random.Random(seed)
    n = 0
    for name, gen in FAMILIES.items():
        for i in range(per_family):
            d = rng.randint(2, 3)
            with warnings.catch_warnings():
                warnings.simplefilter("ignore")
                try:
                    sim, ins = gen(pq, rng, d)
                except Exception:
                    continue
                shots = shots_list[i % len(shots_list)]
                n0 = len(rec.traces)
                try:
                    sim.execute(pq.Program(instructions=ins), shots=shots)
                except Exception:
                    pass
                for t in rec.traces[n0:]:
                    t["meta"]["family"] = name
                n += 1
    return n
