"""Replay of PqEngine behaviours (exported by TLC from spec/MCEngine.tla) into the real simulators.

A behaviour = terminal state of one execution of the specification: program shape, shots, final branch
list (every outcome history with its shot count), failure point.  The driver instantiates the shape with
real instructions, forces the sampler to produce exactly the behaviour's outcome counts, injects the
behaviour's fault at the same (instruction, branch, stage), runs the real engine under the trace recorder
and compares the final projection with the behaviour (spec -> code); the recorded trace is validated by
TLC against PqEngineTrace (code -> spec).
"""
import re
from fractions import Fraction

import numpy as np


class Injected(RuntimeError):
    pass


def _real_outcome(sym, nmeasured):
    return tuple([0] * (nmeasured - 1) + [int(sym)])


class Forcer:
    """Forces `sample_from_probability_map` to return the behaviour's counts, and injects faults."""

    def __init__(self, behaviour, nprep_real, nprep_shape):
        self.b = behaviour
        self.off = nprep_real - nprep_shape
        self.final = [(tuple(int(x) for x in br["o"]), int(br["k"])) for br in behaviour["branches"]]
        self.prefix = ()
        self.instr = 0
        self.branch = 0
        self._undo = []

    def install(self, instrs=()):
        import piquasso._simulators.fock.pure.simulation_steps as P
        import piquasso.fermionic.fock.simulation_steps as FF
        from piquasso.api.simulator import Simulator
        from piquasso.api.instruction import Instruction
        f = self

        def patch(obj, name, new):
            self._undo.append((obj, name, obj.__dict__[name]))
            setattr(obj, name, new)

        def forced(probability_map, shots, rng=None):
            if shots is None:
                return {s: p for s, p in probability_map.items() if not np.isclose(p, 0.0)}
            nmeas = len(next(iter(probability_map.keys())))
            depth = len(f.sym_prefix)
            counts = {}
            for o, k in f.final:
                if o[:depth] == f.sym_prefix and len(o) > depth:
                    counts[o[depth]] = counts.get(o[depth], 0) + k
            if sum(counts.values()) != shots:
                raise AssertionError(f"forcer: counts {counts} do not add up to shots {shots} at prefix {f.sym_prefix}")
            return {_real_outcome(sym, nmeas): Fraction(k, shots) for sym, k in sorted(counts.items())}

        patch(P, "sample_from_probability_map", forced)
        patch(FF, "sample_from_probability_map", forced)

        old_apply = Simulator.__dict__["_apply_instruction_to_branches"]

        def _apply(sim, branches, instruction, shots):
            f.instr += 1
            f.branch = 0
            return old_apply(sim, branches, instruction, shots)

        patch(Simulator, "_apply_instruction_to_branches", _apply)

        old_cond = Instruction.__dict__["_is_condition_met"]

        def _cond(ins, outcomes):
            f.branch += 1
            f.real_prefix = tuple(outcomes)
            f.sym_prefix = f.to_symbols(outcomes)
            return old_cond(ins, outcomes)

        patch(Instruction, "_is_condition_met", _cond)

        b = self.b
        if b["phase"] == "failed" and b["exc"] == "InvalidParameter" and b["pc"] == 0 and b["nsteps"] == 0:
            # up-front parameter validation fails (before anything runs): inject it into the first resolved instruction
            from piquasso.api.exceptions import InvalidParameter
            cand = [x for x in instrs if x._is_resolved()]
            if not cand:
                raise NotImplementedError("no resolved instruction to fail up front")
            victim = cand[-1]
            cls = type(victim)
            base_validate = cls._validate

            def _validate_up(ins, connector):
                if ins is victim and f.instr == 0:
                    raise InvalidParameter("injected by the verification harness (up-front validation)")
                return base_validate(ins, connector)

            if "_validate" in cls.__dict__:
                patch(cls, "_validate", _validate_up)
            else:
                cls._validate = _validate_up
                self._undo.append((cls, "_validate", None))
        elif b["phase"] == "failed" and b["exc"] in ("InvalidParameter", "RuntimeError") and b["stage"] in ("resolve", "validate", "step"):
            target = (b["pc"] + self.off, b["bidx"], b["stage"])
            from piquasso.api.exceptions import InvalidParameter
            old_res = Instruction.__dict__["_resolve_params"]

            def _res(ins, outcomes):
                if (f.instr, f.branch, "resolve") == target:
                    raise InvalidParameter("injected by the verification harness")
                return old_res(ins, outcomes)

            patch(Instruction, "_resolve_params", _res)
            old_get = Simulator.__dict__["_get_simulation_step"]

            def _get(sim, instruction):
                step = old_get(sim, instruction)

                def wrapped(state, ins, shots=None, **kw):
                    if (f.instr, f.branch, "step") == target:
                        raise Injected("injected by the verification harness")
                    if (f.instr, f.branch, "validate") == target:
                        pass
                    return step(state, ins, shots=shots, **kw)
                return wrapped

            patch(Simulator, "_get_simulation_step", _get)
            if b["stage"] == "validate" and 0 < target[0] <= len(instrs):
                cls = type(instrs[target[0] - 1])
                base_validate = cls._validate          # resolved through the MRO

                def _validate(ins, connector):
                    if (f.instr, f.branch, "validate") == target:
                        raise InvalidParameter("injected by the verification harness")
                    return base_validate(ins, connector)

                if "_validate" in cls.__dict__:
                    patch(cls, "_validate", _validate)
                else:
                    cls._validate = _validate
                    self._undo.append((cls, "_validate", None))
        return self

    def to_symbols(self, outcomes):
        """real outcome tuple -> abstract symbols, one per measurement (segments known from the program)."""
        syms, pos = [], 0
        for n in self.segments:
            if pos + n > len(outcomes):
                break
            syms.append(int(outcomes[pos + n - 1]))
            pos += n
        return tuple(syms)

    def uninstall(self):
        for obj, name, old in reversed(self._undo):
            if old is None:
                delattr(obj, name)
            else:
                setattr(obj, name, old)
        self._undo = []


def instantiate(pq, shape, d, simname):
    """program shape (list of spec instruction records) -> (list of real instructions, nprep_real, nprep_shape, segments)"""
    instrs = []
    nprep_shape = sum(1 for s in shape if s["kind"] == "prep")
    # state with support on every 0/1 occupation pattern
    if simname == "PureFockSimulator":
        for s in shape:
            if s["kind"] == "prep":
                instrs.append(pq.Vacuum())
        amp = 2.0 ** (-d / 2)
        for bits in range(2 ** d):
            occ = [(bits >> (d - 1 - m)) & 1 for m in range(d)]
            instrs.append(pq.StateVector(occ, coefficient=amp).on_modes(*range(d)))
    else:
        raise NotImplementedError(simname)
    nprep_real = len(instrs)
    active = list(range(d))
    nmeas_so_far = 0
    segments = []
    for s in shape:
        if s["kind"] == "prep":
            continue
        modes = [int(m) for m in s["modes"]]
        if s["kind"] == "meas":
            ins = pq.ParticleNumberMeasurement()
            if modes:
                ins = ins.on_modes(*modes)
            measured = modes if modes else list(active)
            segments.append(len(measured))
            active = [m for m in active if m not in measured]
            nmeas_so_far += 1
        else:
            unres = bool(s["unres"])
            n = len(modes) if modes else len(active)
            if unres:
                phi = "0.2 + 0.1 * x[-1]" if nmeas_so_far > 0 else (lambda x: 0.2 + (0.1 * x[-1] if len(x) else 0.0))
                xi = phi
            else:
                phi = xi = 0.3
            if modes and len(modes) == 1:
                ins = pq.Phaseshifter(phi=phi).on_modes(*modes)
            elif modes and len(modes) == 2:
                ins = pq.CrossKerr(xi=xi).on_modes(*modes)
            else:
                # all active modes: a diagonal interferometer of the right size (no outcome-dependent parameter possible)
                if unres:
                    ins = pq.Phaseshifter(phi=phi)      # NUMBER_OF_MODES = 1: legal only when one mode is active
                else:
                    ins = pq.Interferometer(np.diag(np.exp(1j * 0.1 * np.arange(1, max(n, 1) + 1))))
                if modes:
                    ins = ins.on_modes(*modes)
            if s["cond"] == "last1":
                ins = ins.when("x[-1] == 1")
            elif s["cond"] == "last0":
                ins = ins.when("x[-1] == 0")
            elif s["cond"] == "never":
                ins = ins.when("1 < 0")
            elif s["cond"] == "raise":
                ins = ins.when("1 / 0 > 0")
        instrs.append(ins)
    return instrs, nprep_real, nprep_shape, segments


def shape_supported(shape, d):
    """shapes the PureFock instantiation can represent faithfully"""
    active = list(range(d))
    for s in shape:
        modes = [int(m) for m in s["modes"]]
        if s["kind"] == "gate" and not modes and s["unres"] and s.get("nmodes", 0) == 0:
            # Q() gate with outcome-dependent parameter: real Phaseshifter has NUMBER_OF_MODES=1; spec shape says "any"
            if len(active) != 1:
                return False
        if s.get("sup") is False or s.get("midok") is False or s.get("noneok") is False or s.get("nmodes", 0) != 0:
            return False
        if any(m >= d or m < 0 for m in modes):
            return False
        if s["kind"] != "prep" and not modes and not active:
            return False      # an instruction on "all active modes" when none is left: no state to act on (outside the model)
        if s["kind"] == "meas":
            measured = modes if modes else list(active)
            if any(m not in active for m in measured):
                return True   # remaining instructions are never reached (ValueError); representable
            active = [m for m in active if m not in measured]
        elif any(m not in active for m in modes):
            return True
    return True


def project_result(forcer, result, shots):
    """final projection of the real Result in the vocabulary of the behaviour"""
    out = []
    for br in result.branches:
        syms = forcer.to_symbols(br.outcome)
        k = int(br.frequency * shots) if shots else 0
        out.append((tuple(syms), k))
    return out
