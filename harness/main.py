"""./check <Cxx> [--tier quick|thorough] [--seed N]   |   ./check replay <file>"""
import argparse
import importlib
import json
import os
import sys
import traceback

from .common import Ctx, MachineryError


def main():
    ap = argparse.ArgumentParser()
    ap.add_argument("pid")
    ap.add_argument("rest", nargs="*")
    ap.add_argument("--tier", default=os.environ.get("VERIF_TIER", "quick"))
    ap.add_argument("--seed", type=int, default=int(os.environ.get("VERIF_SEED", "0") or 0))
    a = ap.parse_args()
    if a.pid == "warmup":
        # compile the numba kernels for the current /repo sources into the content-addressed cache
        import warnings
        import piquasso as pq
        from . import engine_natural as EN
        from .recorder import EngineRecorder
        rec = EngineRecorder()
        with warnings.catch_warnings():
            warnings.simplefilter("ignore")
            EN.run_natural(pq, rec, 0, per_family=4)
        sys.exit(0)
    if a.pid == "replay":
        obj = json.load(open(a.rest[0]))
        pid = obj["property"]
        mod = importlib.import_module(f"harness.checks.{pid.lower()}")
        ctx = Ctx(pid, "replay", a.seed)
        if hasattr(mod, "replay"):
            mod.replay(ctx, obj)
            sys.exit(1 if ctx.violations else 0)
        print(json.dumps(obj, indent=1))
        sys.exit(0)
    pid = a.pid.upper()
    tier = a.tier if a.tier in ("quick", "thorough") else "quick"
    ctx = Ctx(pid, tier, a.seed)
    try:
        mod = importlib.import_module(f"harness.checks.{pid.lower()}")
        mod.run(ctx)
        rc = ctx.finish()
    except MachineryError as e:
        print(f"MACHINERY-FAILURE property={pid}: {e}", file=sys.stderr)
        sys.exit(2)
    except Exception:
        traceback.print_exc()
        print(f"MACHINERY-FAILURE property={pid}: unexpected exception in harness", file=sys.stderr)
        sys.exit(2)
    sys.exit(rc)


if __name__ == "__main__":
    main()
