"""The exact parameter lattice L shared by the TLA+ specifications and the replay drivers.

Every gate has (i) a TLA+ record (one-particle matrix M over Z[sqrt2, i] and the exponents g2, g5 of its
denominator sqrt2^g2 * 5^g5 -- taken from the DOCUMENTED transfer matrices) and (ii) a constructor of the real
piquasso instruction with ordinary float parameters (np.pi / 4, np.arctan2(4, 3), ...)."""
import itertools
import math

import numpy as np

SQ2 = math.sqrt(2.0)


def ring(a=0, b=0, c=0, d=0):
    return (a, b, c, d)


def ring_to_complex(r):
    return complex(r[0] + r[1] * SQ2, r[2] + r[3] * SQ2)


def tla_ring(r):
    return "<<%d, %d, %d, %d>>" % tuple(r)


UNIT = {0: ring(1), 1: ring(c=1), 2: ring(-1), 3: ring(c=-1)}      # e^{i k pi/2}


def rneg(r):
    return tuple(-x for x in r)


def rconj(r):
    return (r[0], r[1], -r[2], -r[3])


def rscale(k, r):
    return tuple(k * x for x in r)


def tla_mat(M):
    return "<< " + ", ".join("<<" + ", ".join(tla_ring(x) for x in row) + ">>" for row in M) + " >>"


def gate_record(g):
    return ('[name |-> "%s", modes |-> <<%s>>, M |-> %s, g2 |-> %d, g5 |-> %d, diag |-> %s, kind |-> "%s", q |-> %d]'
            % (g["name"], ", ".join(map(str, g["modes"])), tla_mat(g["M"]) if g["M"] else "<<>>", g["g2"], g["g5"],
               "TRUE" if g["diag"] else "FALSE", g["kind"], g.get("q", 0)))


def beamsplitter(i, j, theta_key, k):
    """documented transfer matrix [[t, -conj(r)], [r, t]], t = cos(theta), r = e^{i phi} sin(theta); phi = k*pi/2"""
    u = UNIT[k % 4]
    if theta_key == "pi/4":
        M = [[ring(1), rneg(rconj(u))], [u, ring(1)]]
        g2, g5, theta = 1, 0, np.pi / 4
    elif theta_key == "atan(4/3)":          # cos = 3/5, sin = 4/5
        M = [[ring(3), rneg(rconj(rscale(4, u)))], [rscale(4, u), ring(3)]]
        g2, g5, theta = 0, 1, np.arctan2(4.0, 3.0)
    elif theta_key == "pi/2":
        M = [[ring(0), rneg(rconj(u))], [u, ring(0)]]
        g2, g5, theta = 0, 0, np.pi / 2
    elif theta_key == "3pi/4":              # cos = -1/sqrt2, sin = 1/sqrt2
        M = [[ring(-1), rneg(rconj(u))], [u, ring(-1)]]
        g2, g5, theta = 1, 0, 3 * np.pi / 4
    else:
        raise KeyError(theta_key)
    phi = k * np.pi / 2
    # exact derivatives (same denominator): d/dtheta [[c, -e^{-i phi} s], [e^{i phi} s, c]] = [[-s, -e^{-i phi} c], [e^{i phi} c, -s]],
    # d/dphi = [[0, i e^{-i phi} s], [i e^{i phi} s, 0]]
    cn, sn = {"pi/4": (1, 1), "atan(4/3)": (3, 4), "pi/2": (0, 1), "3pi/4": (-1, 1)}[theta_key]
    dth = [[ring(-sn), rneg(rconj(rscale(cn, u)))], [rscale(cn, u), ring(-sn)]]
    dph = [[ring(0), rmul(UNIT[1], rconj(rscale(sn, u)))], [rmul(UNIT[1], rscale(sn, u)), ring(0)]]
    return {"name": f"BS({theta_key},{k}pi/2)", "modes": (i, j), "M": M, "g2": g2, "g5": g5, "diag": False, "kind": "lin",
            "mk": lambda pq, theta=theta, phi=phi: pq.Beamsplitter(theta=theta, phi=phi), "passive": True,
            "dM": [("theta", dth), ("phi", dph)], "cls": "Beamsplitter", "params": {"theta": theta, "phi": phi}}


def beamsplitter5050(i, j):
    M = [[ring(1), ring(-1)], [ring(1), ring(1)]]
    return {"name": "BS5050", "modes": (i, j), "M": M, "g2": 1, "g5": 0, "diag": False, "kind": "lin",
            "mk": lambda pq: pq.Beamsplitter5050(), "passive": True}


def phaseshifter(i, k8):
    """phi = k8 * pi/4"""
    if k8 % 2 == 0:
        M, g2 = [[UNIT[(k8 // 2) % 4]]], 0
    else:                                   # e^{i pi/4} = (1 + i)/sqrt2 times i^m
        base = {1: ring(1, 0, 1, 0), 3: ring(-1, 0, 1, 0), 5: ring(-1, 0, -1, 0), 7: ring(1, 0, -1, 0)}[k8 % 8]
        M, g2 = [[base]], 1
    return {"name": f"PS({k8}pi/4)", "modes": (i,), "M": M, "g2": g2, "g5": 0, "diag": False, "kind": "lin",
            "mk": lambda pq, phi=k8 * np.pi / 4: pq.Phaseshifter(phi=phi), "passive": True,
            "dM": [("phi", [[rmul(UNIT[1], M[0][0])]])], "cls": "Phaseshifter", "params": {"phi": k8 * np.pi / 4}}


def fourier(i):
    g = phaseshifter(i, 2)
    g.update(name="Fourier", mk=lambda pq: pq.Fourier(), dM=[], cls="Fourier", params={})
    return g


def rmul(x, y):
    def smul(p, q, pp, qq):
        return (p * pp + 2 * q * qq, p * qq + q * pp)
    rr, ii = smul(x[0], x[1], y[0], y[1]), smul(x[2], x[3], y[2], y[3])
    ri, ir = smul(x[0], x[1], y[2], y[3]), smul(x[2], x[3], y[0], y[1])
    return (rr[0] - ii[0], rr[1] - ii[1], ri[0] + ir[0], ri[1] + ir[1])


def radd(x, y):
    return tuple(a + b for a, b in zip(x, y))


def matmul(A, B):
    n, m, k = len(A), len(B[0]), len(B)
    out = [[ring(0)] * m for _ in range(n)]
    for a in range(n):
        for b in range(m):
            acc = ring(0)
            for c in range(k):
                acc = radd(acc, rmul(A[a][c], B[c][b]))
            out[a][b] = acc
    return out


def dgate_record(g):
    """Seq of derivative matrices of a gate (one per differentiable parameter), for PqOpticsGrad"""
    return "<< " + ", ".join(tla_mat(M) for _, M in g.get("dM", [])) + " >>"


def machzehnder(i, j, kint, kext):
    """documented: MZ = B(pi/4, pi/2) (R(int) + 1) B(pi/4, pi/2) (R(ext) + 1)  (rightmost acts first)"""
    B = [[ring(1), rneg(rconj(UNIT[1]))], [UNIT[1], ring(1)]]           # * 1/sqrt2
    Rint = [[UNIT[kint % 4], ring(0)], [ring(0), ring(1)]]
    Rext = [[UNIT[kext % 4], ring(0)], [ring(0), ring(1)]]
    M = matmul(matmul(matmul(B, Rint), B), Rext)                         # * 1/2
    return {"name": f"MZ({kint},{kext})", "modes": (i, j), "M": M, "g2": 2, "g5": 0, "diag": False, "kind": "lin",
            "mk": lambda pq, a=kint * np.pi / 2, b=kext * np.pi / 2: pq.MachZehnder(int_=a, ext=b), "passive": True}


def interferometer(modes, which):
    """lattice unitaries given as one-particle matrices (columns = images of the basis states)"""
    k = len(modes)
    if which == "perm" and k == 3:
        M = [[ring(0), ring(0), ring(1)], [ring(1), ring(0), ring(0)], [ring(0), ring(1), ring(0)]]
        g2 = g5 = 0
    elif which == "hadamard" and k == 2:
        M = [[ring(1), ring(1)], [ring(1), ring(-1)]]
        g2, g5 = 1, 0
    elif which == "phaseperm" and k == 2:
        M = [[ring(0), UNIT[1]], [ring(-1), ring(0)]]
        g2 = g5 = 0
    elif which == "rot345" and k == 2:
        M = [[ring(3), ring(c=4)], [ring(c=4), ring(3)]]                 # (3 + 4i sigma_x)/5
        g2, g5 = 0, 1
    elif which == "dft4" and k == 4:
        M = [[UNIT[(a * b) % 4] for b in range(4)] for a in range(4)]
        g2, g5 = 2, 0
    else:
        raise KeyError((which, k))
    U = np.array([[ring_to_complex(x) for x in row] for row in M]) / (SQ2 ** g2 * 5 ** g5)
    return {"name": f"Interferometer({which})", "modes": tuple(modes), "M": M, "g2": g2, "g5": g5, "diag": False, "kind": "lin",
            "mk": lambda pq, U=U: pq.Interferometer(U), "passive": True}


def kerr(i, q):
    """K = exp(i xi n^2), xi = q * pi/2"""
    return {"name": f"Kerr({q}pi/2)", "modes": (i,), "M": None, "g2": 0, "g5": 0, "diag": True, "kind": "kerr", "q": q,
            "mk": lambda pq, xi=q * np.pi / 2: pq.Kerr(xi=xi), "passive": False}


def crosskerr(i, j, q):
    return {"name": f"CrossKerr({q}pi/2)", "modes": (i, j), "M": None, "g2": 0, "g5": 0, "diag": True, "kind": "crosskerr", "q": q,
            "mk": lambda pq, xi=q * np.pi / 2: pq.CrossKerr(xi=xi), "passive": False}


def passive_catalogue(d, rng=None, size=None, with_kerr=True):
    """every gate family on every ordered mode tuple of a d-mode register"""
    gates = []
    pairs = [(i, j) for i in range(d) for j in range(d) if i != j]
    for (i, j) in pairs:
        for th in ("pi/4", "atan(4/3)", "pi/2", "3pi/4"):
            for k in range(4):
                gates.append(beamsplitter(i, j, th, k))
        gates.append(beamsplitter5050(i, j))
        for a, b in ((0, 1), (1, 0), (1, 2), (3, 1)):
            gates.append(machzehnder(i, j, a, b))
        for w in ("hadamard", "phaseperm", "rot345"):
            gates.append(interferometer((i, j), w))
        if with_kerr:
            gates.append(crosskerr(i, j, 1))
            gates.append(crosskerr(i, j, 3))
    for i in range(d):
        for k8 in range(1, 8):
            gates.append(phaseshifter(i, k8))
        gates.append(fourier(i))
        if with_kerr:
            gates.append(kerr(i, 1))
            gates.append(kerr(i, 2))
    if d >= 3:
        for modes in itertools.permutations(range(d), 3):
            gates.append(interferometer(modes, "perm"))
    if d >= 4:
        gates.append(interferometer((0, 1, 2, 3), "dft4"))
        gates.append(interferometer((2, 0, 3, 1), "dft4"))
    if rng is not None and size is not None and len(gates) > size:
        gates = rng.sample(gates, size)
    return gates


def inputs(d, nmax, rng=None, size=None):
    out = []

    def rec(prefix, left):
        if len(prefix) == d:
            out.append(tuple(prefix))
            return
        for k in range(left + 1):
            rec(prefix + [k], left - k)
    rec([], nmax)
    out = [v for v in out if 0 < sum(v) <= nmax]
    if rng is not None and size is not None and len(out) > size:
        out = rng.sample(out, size)
    return out


def loss(i, tkey):
    """Loss(t) on mode i as the documented beamsplitter dilation [[t, -r], [r, t]], t = cos(theta) (amplitude transmissivity)"""
    if tkey == "4/5":
        M, g2, g5, t = [[ring(4), ring(-3)], [ring(3), ring(4)]], 0, 1, 0.8
    elif tkey == "3/5":
        M, g2, g5, t = [[ring(3), ring(-4)], [ring(4), ring(3)]], 0, 1, 0.6
    elif tkey == "1/sqrt2":
        M, g2, g5, t = [[ring(1), ring(-1)], [ring(1), ring(1)]], 1, 0, math.sqrt(0.5)
    elif tkey == "0":
        M, g2, g5, t = [[ring(0), ring(-1)], [ring(1), ring(0)]], 0, 0, 0.0
    elif tkey == "1":
        M, g2, g5, t = [[ring(1), ring(0)], [ring(0), ring(1)]], 0, 0, 1.0
    else:
        raise KeyError(tkey)
    return {"name": f"Loss({tkey})", "modes": (i,), "M": M, "g2": g2, "g5": g5, "diag": False, "kind": "lin", "t": t,
            "mk": lambda pq, t=t: pq.Loss(transmissivity=t), "passive": True}


# ----------------------------------------------------------------------------------------------------------------
# Gaussian lattice: blocks (P, A) and displacement alpha as fractions over Z[sqrt2, i]: (ring 4-tuple, denominator)
def q(r, den=1):
    return (tuple(r), int(den))


def q_to_complex(x):
    return ring_to_complex(x[0]) / x[1]


def tla_q(x):
    return "[n |-> %s, d |-> %d]" % (tla_ring(x[0]), x[1])


def tla_qmat(M):
    return "<< " + ", ".join("<<" + ", ".join(tla_q(x) for x in row) + ">>" for row in M) + " >>"


Q0, Q1 = q(ring(0)), q(ring(1))


def qmul_unit(k, x):
    return q(rmul(UNIT[k % 4], x[0]), x[1])


def gauss_record(g):
    return ('[name |-> "%s", modes |-> <<%s>>, P |-> %s, A |-> %s, alpha |-> <<%s>>, passive |-> %s, chan |-> %s]'
            % (g["name"], ", ".join(map(str, g["modes"])), tla_qmat(g["P"]), tla_qmat(g["A"]), ", ".join(tla_q(a) for a in g["alpha"]),
               "TRUE" if g["passive"] else "FALSE", "TRUE" if g.get("chan") else "FALSE"))


ATTEN = {"pi/4": (q(ring(0, 1), 2), q(ring(1), 2), np.pi / 4), "3pi/4": (q(ring(0, -1), 2), q(ring(1), 2), 3 * np.pi / 4),
         "atan(4/3)": (q(ring(3), 5), q(ring(16), 25), np.arctan2(4.0, 3.0)), "pi-atan(4/3)": (q(ring(-3), 5), q(ring(16), 25), np.pi - np.arctan2(4.0, 3.0))}


def attenuator(i, key, nbar=0):
    """Attenuator(theta, mean_thermal_excitation): a -> cos(theta) a + sin(theta) b; record fields: P = cos, A = sin^2, alpha = nbar"""
    c, s2, th = ATTEN[key]
    return {"name": f"Attenuator({key},{nbar})", "modes": (i,), "P": [[c]], "A": [[s2]], "alpha": [q(ring(nbar))], "passive": False, "chan": True,
            "mk": lambda pq, th=th, nb=nbar: pq.Attenuator(theta=th, mean_thermal_excitation=nb)}


def _from_passive(pg):
    """passive lattice gate (matrix M / (sqrt2^g2 5^g5)) -> fraction blocks"""
    k = len(pg["modes"])
    den = 5 ** pg["g5"] * 2 ** ((pg["g2"] + 1) // 2)
    s2 = ring(0, 1) if pg["g2"] % 2 == 1 else ring(1)
    P = [[q(rmul(s2, pg["M"][i][j]), den) for j in range(k)] for i in range(k)]
    g = {"name": pg["name"], "modes": pg["modes"], "P": P, "A": [[Q0] * k for _ in range(k)], "alpha": [Q0] * k, "passive": True, "mk": pg["mk"]}
    if pg.get("dM"):
        zero = [[Q0] * k for _ in range(k)]
        g.update(cls=pg["cls"], params=pg["params"],
                 dG=[(pn, [[q(rmul(s2, dM[i][j]), den) for j in range(k)] for i in range(k)], zero, [Q0] * k) for pn, dM in pg["dM"]])
    return g


def dgauss_record(g):
    """Seq of derivative records [P, A, alpha] of a Gaussian lattice gate, one per differentiable parameter (PqGaussianGrad)"""
    return "<< " + ", ".join("[P |-> %s, A |-> %s, alpha |-> <<%s>>]" % (tla_qmat(dP), tla_qmat(dA), ", ".join(tla_q(a) for a in da))
                             for _, dP, dA, da in g.get("dG", [])) + " >>"


SQUEEZE = {"ln2": (5, 3, 4, math.log(2.0)), "-ln2": (5, -3, 4, -math.log(2.0)), "ln3": (5, 4, 3, math.log(3.0))}     # cosh num, sinh num, den, r


def squeezing(i, rkey, k):
    c, s, den, r = SQUEEZE[rkey]
    # P = cosh r, A = -e^{i phi} sinh r:  d/dr = (sinh r, -e^{i phi} cosh r),  d/dphi = (0, -i e^{i phi} sinh r)
    return {"name": f"Squeezing({rkey},{k}pi/2)", "modes": (i,), "P": [[q(ring(c), den)]], "A": [[qmul_unit(k, q(ring(-s), den))]], "alpha": [Q0],
            "passive": False, "mk": lambda pq, r=r, phi=k * np.pi / 2: pq.Squeezing(r=r, phi=phi),
            "cls": "Squeezing", "params": {"r": r, "phi": k * np.pi / 2},
            "dG": [("r", [[q(ring(s), den)]], [[qmul_unit(k, q(ring(-c), den))]], [Q0]),
                   ("phi", [[Q0]], [[qmul_unit(k + 1, q(ring(-s), den))]], [Q0])]}


def squeezing2(i, j, rkey, k):
    c, s, den, r = SQUEEZE[rkey]
    es = qmul_unit(k, q(ring(s), den))
    ec, ies = qmul_unit(k, q(ring(c), den)), qmul_unit(k + 1, q(ring(s), den))
    return {"name": f"Squeezing2({rkey},{k}pi/2)", "modes": (i, j), "P": [[q(ring(c), den), Q0], [Q0, q(ring(c), den)]], "A": [[Q0, es], [es, Q0]],
            "alpha": [Q0, Q0], "passive": False, "mk": lambda pq, r=r, phi=k * np.pi / 2: pq.Squeezing2(r=r, phi=phi),
            "cls": "Squeezing2", "params": {"r": r, "phi": k * np.pi / 2},
            "dG": [("r", [[q(ring(s), den), Q0], [Q0, q(ring(s), den)]], [[Q0, ec], [ec, Q0]], [Q0, Q0]),
                   ("phi", [[Q0, Q0], [Q0, Q0]], [[Q0, ies], [ies, Q0]], [Q0, Q0])]}


def quadratic_phase(i, snum, sden):
    half = q(ring(c=snum), 2 * sden)            # i s / 2
    ih = q(ring(c=1), 2)                        # d/ds of (1 + i s / 2) and of (i s / 2)
    return {"name": f"QuadraticPhase({snum}/{sden})", "modes": (i,), "P": [[q(ring(2 * sden, 0, snum, 0), 2 * sden)]], "A": [[half]], "alpha": [Q0],
            "passive": False, "mk": lambda pq, s=snum / sden: pq.QuadraticPhase(s=s),
            "cls": "QuadraticPhase", "params": {"s": snum / sden}, "dG": [("s", [[ih]], [[ih]], [Q0])]}


def controlled_x(i, j, snum, sden):
    h, mh = q(ring(snum), 2 * sden), q(ring(-snum), 2 * sden)
    d1, dm = q(ring(1), 2), q(ring(-1), 2)
    return {"name": f"ControlledX({snum}/{sden})", "modes": (i, j), "P": [[Q1, mh], [h, Q1]], "A": [[Q0, h], [h, Q0]], "alpha": [Q0, Q0],
            "passive": False, "mk": lambda pq, s=snum / sden: pq.ControlledX(s=s),
            "cls": "ControlledX", "params": {"s": snum / sden}, "dG": [("s", [[Q0, dm], [d1, Q0]], [[Q0, d1], [d1, Q0]], [Q0, Q0])]}


def controlled_z(i, j, snum, sden):
    ih = q(ring(c=snum), 2 * sden)
    di = q(ring(c=1), 2)
    return {"name": f"ControlledZ({snum}/{sden})", "modes": (i, j), "P": [[Q1, ih], [ih, Q1]], "A": [[Q0, ih], [ih, Q0]], "alpha": [Q0, Q0],
            "passive": False, "mk": lambda pq, s=snum / sden: pq.ControlledZ(s=s),
            "cls": "ControlledZ", "params": {"s": snum / sden}, "dG": [("s", [[Q0, di], [di, Q0]], [[Q0, di], [di, Q0]], [Q0, Q0])]}


def displacement(i, rnum, rden, k, kind="Displacement"):
    a = qmul_unit(k, q(ring(rnum), rden))
    if kind == "Displacement":
        mk = lambda pq, r=rnum / rden, phi=k * np.pi / 2: pq.Displacement(r=r, phi=phi)     # noqa
    elif kind == "PositionDisplacement":
        a = q(ring(rnum), rden)
        mk = lambda pq, x=rnum / rden: pq.PositionDisplacement(x=x)                          # noqa
    else:
        a = q(ring(c=rnum), rden)
        mk = lambda pq, p=rnum / rden: pq.MomentumDisplacement(p=p)                          # noqa
    g = {"name": f"{kind}({rnum}/{rden},{k}pi/2)", "modes": (i,), "P": [[Q1]], "A": [[Q0]], "alpha": [a], "passive": False, "mk": mk}
    if kind == "Displacement":          # alpha = r e^{i phi}
        g.update(cls="Displacement", params={"r": rnum / rden, "phi": k * np.pi / 2},
                 dG=[("r", [[Q0]], [[Q0]], [qmul_unit(k, Q1)]), ("phi", [[Q0]], [[Q0]], [qmul_unit(k + 1, q(ring(rnum), rden))])])
    return g


def gaussian_transform(i, j):
    """GaussianTransform with blocks of two different single-mode squeezers (documented: S = [[P, A], [conj A, conj P]])"""
    P = [[q(ring(5), 4), Q0], [Q0, q(ring(5), 3)]]
    A = [[q(ring(-3), 4), Q0], [Q0, q(ring(c=-4), 3)]]
    Pn = np.array([[1.25, 0], [0, 5 / 3]], dtype=complex)
    An = np.array([[-0.75, 0], [0, -4j / 3]], dtype=complex)
    return {"name": "GaussianTransform", "modes": (i, j), "P": P, "A": A, "alpha": [Q0, Q0], "passive": False,
            "mk": lambda pq: pq.GaussianTransform(passive=Pn, active=An)}


def gaussian_catalogue(d, rng=None, size=None):
    gates = []
    for i in range(d):
        for rk in SQUEEZE:
            for k in range(4):
                gates.append(squeezing(i, rk, k))
        for (a, b) in ((1, 1), (-1, 1), (1, 2), (2, 1)):
            gates.append(quadratic_phase(i, a, b))
        for (a, b) in ((1, 2), (1, 1), (2, 1)):
            for k in range(4):
                gates.append(displacement(i, a, b, k))
        for key in ATTEN:
            gates.append(attenuator(i, key, 0))
        gates.append(attenuator(i, "pi/4", 1))
        gates.append(displacement(i, 1, 2, 0, "PositionDisplacement"))
        gates.append(displacement(i, -1, 1, 0, "MomentumDisplacement"))
    pairs = [(i, j) for i in range(d) for j in range(d) if i != j]
    for (i, j) in pairs:
        for rk in ("ln2", "ln3"):
            for k in range(4):
                gates.append(squeezing2(i, j, rk, k))
        for (a, b) in ((1, 1), (-1, 2), (2, 1)):
            gates.append(controlled_x(i, j, a, b))
            gates.append(controlled_z(i, j, a, b))
        gates.append(gaussian_transform(i, j))
    passive = [g for g in passive_catalogue(d, with_kerr=False)]
    gates += [_from_passive(g) for g in passive]
    if rng is not None and size is not None and len(gates) > size:
        # keep a mix: half active, half passive
        act = [g for g in gates if not g["passive"]]
        pas = [g for g in gates if g["passive"]]
        gates = rng.sample(act, min(len(act), size - size // 3)) + rng.sample(pas, min(len(pas), size // 3))
    return gates


HBARS = [(1, 2, 1, 1, 0.5), (2, 1, 2, 1, 2.0), (8, 1, 4, 1, 8.0)]      # hbar num, den, sqrt(2 hbar) num, den, float


# ----------------------------------------------------------------------------------------------------------------
# fermionic lattice
def fermi_record(g):
    base = '[name |-> "%s", kind |-> "%s", modes |-> <<%s>>, ' % (g["name"], g["kind"], ", ".join(map(str, g["modes"])))
    if g["kind"] == "passive":
        return base + "U |-> %s, c |-> %s, s |-> %s, sp |-> %s, sm |-> %s, q |-> 0]" % (tla_qmat(g["U"]), tla_q(Q0), tla_q(Q0), tla_q(Q0), tla_q(Q0))
    return base + "U |-> <<>>, c |-> %s, s |-> %s, sp |-> %s, sm |-> %s, q |-> %d]" % (tla_q(g["c"]), tla_q(g["s"]), tla_q(g.get("sp", Q0)), tla_q(g.get("sm", Q0)), g.get("q", 0))


HALF_ANGLES = {"pi/4": (q(ring(0, 1), 2), q(ring(0, 1), 2), np.pi / 4), "atan(4/3)": (q(ring(3), 5), q(ring(4), 5), np.arctan2(4.0, 3.0)),
               "pi/2": (Q0, Q1, np.pi / 2), "atan(3/4)": (q(ring(4), 5), q(ring(3), 5), np.arctan2(3.0, 4.0))}


def fermi_catalogue(d, rng=None, size=None, with_cphase=False):
    gates = []
    for i in range(d - 1):
        for th in ("pi/4", "atan(4/3)", "pi/2"):
            for k in range(4):
                pg = _from_passive(beamsplitter(i, i + 1, th, k))
                gates.append({"name": pg["name"], "kind": "passive", "modes": (i, i + 1), "U": pg["P"], "mk": pg["mk"], "gaussian": True})
        for key, (c, s, half) in HALF_ANGLES.items():
            for k in range(4):
                sm = qmul_unit(k, q(rneg(s[0]), s[1]))          # - e^{i phi} sin(r/2)
                sp = qmul_unit(-k % 4, s)                        # + e^{-i phi} sin(r/2)
                gates.append({"name": f"Squeezing2(r=2*{key},{k}pi/2)", "kind": "sq2", "modes": (i, i + 1), "c": c, "s": s, "sm": sm, "sp": sp, "gaussian": True,
                              "mk": lambda pq, r=2 * half, phi=k * np.pi / 2: pq.Squeezing2(r=r, phi=phi)})
            gates.append({"name": f"IsingXX({key})", "kind": "xx", "modes": (i, i + 1), "c": c, "s": s, "gaussian": True,
                          "mk": lambda pq, phi=half: pq.fermionic.IsingXX(phi=phi)})
        if with_cphase:
            for qq in (1, 2, 3):
                gates.append({"name": f"ControlledPhase({qq}pi/2)", "kind": "cphase", "modes": (i, i + 1), "c": Q0, "s": Q0, "q": qq, "gaussian": False,
                              "mk": lambda pq, phi=qq * np.pi / 2: pq.fermionic.ControlledPhase(phi=phi)})
    for i in range(d):
        for k8 in range(1, 8):
            pg = _from_passive(phaseshifter(i, k8))
            gates.append({"name": pg["name"], "kind": "passive", "modes": (i,), "U": pg["P"], "mk": pg["mk"], "gaussian": True})
    if d >= 3:
        for start in range(d - 2):
            pg = _from_passive(interferometer((start, start + 1, start + 2), "perm"))
            gates.append({"name": pg["name"], "kind": "passive", "modes": (start, start + 1, start + 2), "U": pg["P"], "mk": pg["mk"], "gaussian": True})
    for i in range(d - 1):
        for w in ("hadamard", "rot345", "phaseperm"):
            pg = _from_passive(interferometer((i, i + 1), w))
            gates.append({"name": pg["name"], "kind": "passive", "modes": (i, i + 1), "U": pg["P"], "mk": pg["mk"], "gaussian": True})
    if rng is not None and size is not None and len(gates) > size:
        gates = rng.sample(gates, size)
    return gates
