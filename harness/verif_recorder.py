"""pytest plugin living outside the repository:  pytest -p verif_recorder   (PYTHONPATH=/verif:/verif/harness)
Records every Simulator.execute_instructions of the repository's own tests; dumps to $VERIF_TRACE_OUT."""
import os

_rec = None


def pytest_configure(config):
    global _rec
    from harness.recorder import EngineRecorder
    _rec = EngineRecorder(max_traces=20000).install()


def pytest_unconfigure(config):
    if _rec is not None:
        _rec.uninstall()
        out = os.environ.get("VERIF_TRACE_OUT")
        if out:
            _rec.dump(out)
