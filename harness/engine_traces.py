"""Validation of recorded engine traces against spec/PqEngineTrace.tla with TLC (batched)."""
import json
import os
import re
import tempfile

from .common import run_tlc, MachineryError
from .recorder import WUNIT

CFG = """SPECIFICATION TSpec
CONSTANTS
  TraceFile = "traces.json"
  NoneShots = 0
  Exact = FALSE
  WUnit = %d
  WTol = %d
INVARIANT FrameOnEnd
INVARIANT ShotsConserved
INVARIANT RejectBeforeEvolve
INVARIANT ActiveIsSubsequence
INVARIANT Report
"""


def validate(traces, wtol=3, timeout=3000, chunk=4000):
    """traces: list of {"meta":..., "events":[...]}.  Returns (results, tlc_stats) where results[i] is
    None (accepted), ("outside", why), ("rejected", index_of_event_not_consumed, event) or
    ("invariant", name)."""
    results = [None] * len(traces)
    idx = []
    for i, t in enumerate(traces):
        if t["meta"].get("outside"):
            results[i] = ("outside", t["meta"]["outside"])
        elif len(t["events"]) < 2 or "prog" not in t["events"][0]:
            results[i] = ("outside", "no begin event")
        else:
            idx.append(i)
    states = trans = 0
    for c0 in range(0, len(idx), chunk):
        part = idx[c0:c0 + chunk]
        res = run_tlc("PqEngineTrace", "T.cfg", generated={"T.cfg": CFG % (WUNIT, wtol),
                                                            "traces.json": json.dumps([traces[i]["events"] for i in part])},
                      timeout=timeout)
        states += res.distinct
        trans += res.generated
        reach = {}
        for m in re.finditer(r'<<"AT", (\d+), (\d+), (\d+)>>', res.out):
            tid, l, n = map(int, m.groups())
            reach[tid] = max(reach.get(tid, 0), l)
        if res.violated:
            # an invariant of PqEngine failed on some trace: find which by re-running singly is costly; report generically
            m = re.search(r"tid = (\d+)", res.out)
            bad = int(m.group(1)) if m else None
            for j, i in enumerate(part, 1):
                if bad == j:
                    results[i] = ("invariant", ",".join(map(str, res.violated)))
            if bad is None:
                raise MachineryError("trace invariant violated but trace not identified:\n" + res.out[-1500:])
        elif "Error:" in res.out:
            open("/tmp/engine_trace_fail.out", "w").write(res.out)
            json.dump([traces[i] for i in part], open("/tmp/engine_trace_fail.json", "w"))
            errs = [ln for ln in res.out.splitlines() if not ln.startswith('<<"AT"')]
            raise MachineryError("PqEngineTrace run failed:\n" + "\n".join(errs[-60:])[:4000])
        for j, i in enumerate(part, 1):
            if results[i] is not None:
                continue
            ev = traces[i]["events"]
            r = reach.get(j, 0)
            if r != len(ev) + 1:
                at = max(r, 2)
                results[i] = ("rejected", at - 1, ev[at - 1] if at - 1 < len(ev) else None)
    return results, {"states": states, "transitions": trans}


def explain(trace, res):
    """Name the failing clause of a rejected trace (post-hoc, for the report only)."""
    kind = res[0]
    if kind != "rejected":
        return str(res)
    at, ev = res[1], res[2]
    evs = trace["events"]
    b0 = evs[0]
    if ev and ev.get("e") == "end":
        user = [p["modes"] for p in b0["prog"]]
        if ev["stored"] != user:
            bad = [i + 1 for i, (a, b) in enumerate(zip(ev["stored"], user)) if a != b]
            return f"frame: instruction modes not restored at end (status={ev['status']}, exc={ev['exc']}): instr {bad} stored={ [ev['stored'][i-1] for i in bad] } user={ [user[i-1] for i in bad] }"
        if ev["resolved"]:
            return f"frame: parameters of instr {ev['resolved']} left resolved at end (status={ev['status']}, exc={ev['exc']})"
        if ev["status"] == "done" and b0["shots"] > 0 and ev["nsamples"] != b0["shots"]:
            return f"accounting: len(samples)={ev['nsamples']} != shots={b0['shots']}"
        if ev["status"] == "done" and b0["shots"] > 0 and ev["counts_sum"] not in (-1, b0["shots"]):
            return f"accounting: sum(get_counts())={ev['counts_sum']} != shots={b0['shots']}"
        return f"end event not explained by the spec: status={ev['status']} exc={ev['exc']} (spec expected a different continuation)"
    if ev and ev.get("e") == "step" and ev.get("ok"):
        sids = [s_.get("sid", 0) for s_ in ev["subs"] if s_.get("sid", 0)]
        if len(set(sids)) != len(sids):
            i = sum(1 for e in evs[:at] if e.get("e") == "ibegin")
            ins = b0["prog"][i - 1] if 0 < i <= len(b0["prog"]) else {}
            return f"chain-rule: {ins.get('cls')} returned branches that share one state object (aliasing): later instructions act on it once per branch"
        cur = ev.get("cur_shots")
    if ev and ev.get("e") == "step" and ev.get("ok") and b0["shots"] == 0:
        i = sum(1 for e in evs[:at] if e.get("e") == "ibegin")
        ins = b0["prog"][i - 1] if 0 < i <= len(b0["prog"]) else {}
        sns = [s_.get("sn", -1) for s_ in ev["subs"]]
        if ins.get("normproj") and any(sn != -1 and abs(sn - 10000) > 3 for sn in sns):
            return (f"chain-rule: {ins.get('cls')} with shots=None returned branch states that are not normalised projections "
                    f"(norms {[round(sn / 10000, 4) for sn in sns[:6]]}): later weights are joint, not conditional, probabilities")
        tot = sum(s_["wn"] for s_ in ev["subs"])
        if ins.get("kind") == "meas" and abs(tot - ev["norm"]) > 3 * (1 + len(ev["subs"])):
            return f"chain-rule: {ins.get('cls')} with shots=None: branch weights sum to {tot / 10000:.4f}, norm of the measured state is {ev['norm'] / 10000:.4f}"
    return f"event {at} {json.dumps(ev)[:300]} not allowed by PqEngine after the matched prefix"
