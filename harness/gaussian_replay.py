"""Replay of PqGaussian behaviours (exact (mu, Gam) on the lattice) into GaussianSimulator."""
import warnings

import numpy as np

from . import lattice as L
from .common import run_tlc, MachineryError


def qv(x):
    return L.ring_to_complex(x["n"]) / x["d"]


def spec_module(name, d, gates, extra=""):
    return ("---- MODULE %s ----\nEXTENDS PqGaussian\nGDef == << %s >>\nHDef == << %s >>\n%s\n====\n"
            % (name, ",\n ".join(L.gauss_record(g) for g in gates), ", ".join("<<%d, %d, %d, %d>>" % h[:4] for h in L.HBARS), extra))


CFG = """SPECIFICATION Spec
CONSTANTS
  D = %d
  Gates <- GDef
  MaxDepth = %d
  HBars <- HDef
  Export = TRUE
INVARIANT GamHermitian
INVARIANT CCR
INVARIANT DiagonalNonNegative
INVARIANT CovCoreIsHermitian
INVARIANT ExportState
"""


def explore(ctx, d, gates, depth, extra="", simulate=None, seed=0):
    res = run_tlc("MCPG", "MCPG.cfg", generated={"MCPG.tla": spec_module("MCPG", d, gates, extra), "MCPG.cfg": CFG % (d, depth)}, timeout=3000,
                  simulate=simulate, depth=(depth + 1) if simulate else None, seed=seed if simulate else None)
    if res.violated:
        ctx.report("spec:PqGaussian:" + ",".join(map(str, res.violated)), "PqGaussian violates its own theorem (oracle broken)", res.out[-2000:])
        return []
    if "Error:" in res.out:
        msg = "\n".join(l for l in res.out.splitlines() if not l.startswith('<<"GAUSS"'))[-2500:]
        if "Assumption" in msg and "is false" in msg:
            ctx.report("spec:PqGaussian:assumption", "a documented gate block or identity fails on the specification: " + msg[-600:], msg)
            return []
        raise MachineryError("PqGaussian run failed:\n" + msg)
    ctx.add_tlc(res)
    seen, out = set(), []
    for r in res.records("GAUSS"):
        key = tuple(r["hist"])
        if key not in seen:
            seen.add(key)
            out.append(r)
    return out


def decode(rec, d):
    mu = np.array([qv(x) for x in rec["mu"]])
    Gam = np.array([[qv(x) for x in row] for row in rec["Gam"]])
    reps = {}
    for r in rec["reps"]:
        h = r["hbar"][0] / r["hbar"][1]
        reps[h] = (np.array([qv(x) for x in r["mean"]]).real, np.array([[qv(x) for x in row] for row in r["cov"]]).real)
    nbar = np.array([qv(x) for x in rec["nbar"]]).real
    return mu, Gam, reps, nbar


def build_state(pq, gates, idx, d, hbar, cutoff=4):
    with warnings.catch_warnings():
        warnings.simplefilter("ignore")
        ins = [pq.Vacuum()] + [gates[i]["mk"](pq).on_modes(*gates[i]["modes"]) for i in idx]
        return pq.GaussianSimulator(d=d, config=pq.Config(hbar=hbar, cutoff=cutoff)).execute(pq.Program(instructions=ins)).state


def xxpp_to_xpxp_perm(d):
    return np.array([k // 2 + (k % 2) * d for k in range(2 * d)])
