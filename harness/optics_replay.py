"""Replay of PqOptics behaviours (exact amplitudes) into the bosonic simulators."""
import math
import re
import warnings

import numpy as np

from . import lattice as L
from .common import run_tlc, tlc_ok, MachineryError


def spec_module(name, d, gates, inputs, losses=(), meassets=(), perm=(), extra_defs=""):
    gdef = "<< " + ",\n  ".join(L.gate_record(g) for g in gates) + " >>"
    ldef = "<< " + ",\n  ".join(L.gate_record(g) for g in losses) + " >>"
    idef = "{ " + ", ".join("<<" + ", ".join(map(str, v)) + ">>" for v in inputs) + " }"
    mdef = "{ " + ", ".join("<<" + ", ".join(map(str, v)) + ">>" for v in meassets) + " }"
    return (f"---- MODULE {name} ----\nEXTENDS PqOptics\nGDef == {gdef}\nLDef == {ldef}\nInDef == {idef}\nMDef == {mdef}\nPDef == <<{", ".join(map(str, perm))}>>\n{extra_defs}\n====\n")


def parse_terms(rec):
    """OPT record -> (input, gate indices, {vec: complex amplitude})"""
    den = (L.SQ2 ** rec["e2"]) * (5.0 ** rec["e5"]) * math.sqrt(rec["nfn"] / rec["nfd"])
    amps = {}
    for k, r in rec["terms"].items():
        vec = tuple(int(x) for x in re.findall(r"-?\d+", k))
        amps[vec] = L.ring_to_complex(r) * math.sqrt(math.prod(math.factorial(x) for x in vec)) / den
    hist = rec["hist"]
    inp = tuple(hist[0]["input"])
    idx = [h["gate"] - 1 for h in hist[1:] if "gate" in h]
    return inp, idx, amps


def build(pq, gates, inp, idx, prep):
    ins = [prep(inp)]
    for i in idx:
        g = gates[i]
        ins.append(g["mk"](pq).on_modes(*g["modes"]))
    return ins


def compare_purefock(ctx, pq, pid, gates, inp, idx, amps, cutoff, tol=1e-9, hbar=2.0, label="PureFock"):
    from piquasso._math.fock import get_fock_space_basis
    d = len(inp)
    with warnings.catch_warnings():
        warnings.simplefilter("ignore")
        ins = build(pq, gates, inp, idx, lambda v: pq.NumberState(v).on_modes(*range(d)))
        sim = pq.PureFockSimulator(d=d, config=pq.Config(cutoff=cutoff, hbar=hbar))
        st = sim.execute(pq.Program(instructions=ins)).state
    basis = get_fock_space_basis(d=d, cutoff=cutoff)
    sv = np.asarray(st.state_vector)
    exp = np.array([amps.get(tuple(int(x) for x in b), 0.0) for b in basis], dtype=complex)
    err = np.abs(sv - exp).max()
    name = [gates[i]["name"] + str(gates[i]["modes"]) for i in idx]
    if err > tol:
        j = int(np.argmax(np.abs(sv - exp)))
        ctx.report(f"{pid}:amplitude:{label}:{'/'.join(g.split('(')[0] for g in name)}",
                   f"{label} (cutoff {cutoff}) state vector differs from the exact state after {name} on input {inp}: "
                   f"<{tuple(int(x) for x in basis[j])}|psi> = {sv[j]:.6f}, exact {exp[j]:.6f}",
                   {"input": inp, "gates": name, "cutoff": cutoff, "sim": label})
        return st, False
    p = np.asarray(st.fock_probabilities)
    if np.abs(p - np.abs(exp) ** 2).max() > tol:
        ctx.report(f"{pid}:fock_probabilities:{label}", f"{label} fock_probabilities inconsistent with the exact state after {name}", {"input": inp, "gates": name})
        return st, False
    return st, True


def compare_fock(ctx, pq, pid, gates, inp, idx, amps, cutoff, tol=1e-9):
    from piquasso._math.fock import get_fock_space_basis
    d = len(inp)
    with warnings.catch_warnings():
        warnings.simplefilter("ignore")
        ins = build(pq, gates, inp, idx, lambda v: pq.DensityMatrix(ket=v, bra=v).on_modes(*range(d)))
        sim = pq.FockSimulator(d=d, config=pq.Config(cutoff=cutoff))
        st = sim.execute(pq.Program(instructions=ins)).state
    basis = get_fock_space_basis(d=d, cutoff=cutoff)
    exp = np.array([amps.get(tuple(int(x) for x in b), 0.0) for b in basis], dtype=complex)
    rho = np.asarray(st.density_matrix)
    name = [gates[i]["name"] + str(gates[i]["modes"]) for i in idx]
    err = np.abs(rho - np.outer(exp, exp.conj())).max()
    if err > tol:
        ctx.report(f"{pid}:density_matrix:Fock:{'/'.join(g.split('(')[0] for g in name)}",
                   f"FockSimulator (cutoff {cutoff}) density matrix differs from |psi><psi| of the exact state after {name} on input {inp} (max deviation {err:.3g})",
                   {"input": inp, "gates": name, "cutoff": cutoff})
        return st, False
    return st, True


def compare_passive(ctx, pq, pid, gates, inp, idx, amps, tol=1e-9):
    d = len(inp)
    n = sum(inp)
    with warnings.catch_warnings():
        warnings.simplefilter("ignore")
        ins = build(pq, gates, inp, idx, lambda v: pq.NumberState(v).on_modes(*range(d)))
        sim = pq.PassiveSimulator(d=d, config=pq.Config(cutoff=n + 1))
        st = sim.execute(pq.Program(instructions=ins)).state
    name = [gates[i]["name"] + str(gates[i]["modes"]) for i in idx]
    ok = True
    from piquasso._math.fock import get_fock_space_basis
    for b in get_fock_space_basis(d=d, cutoff=n + 1):
        v = tuple(int(x) for x in b)
        if sum(v) != n:
            continue
        p = float(st.get_particle_detection_probability(np.array(v)))
        e = abs(amps.get(v, 0.0)) ** 2
        if abs(p - e) > tol:
            ctx.report(f"{pid}:detection_probability:Passive:{'/'.join(g.split('(')[0] for g in name)}",
                       f"PassiveSimulator P({v}) = {p:.9f}, exact {e:.9f} after {name} on input {inp}", {"input": inp, "gates": name})
            ok = False
            break
    return st, ok
