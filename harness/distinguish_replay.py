"""PqDistinguish behaviours (partially distinguishable photons by definition: internal components as extra modes)."""
import re

import numpy as np

from . import lattice as L
from .common import run_tlc, MachineryError

CFG = """SPECIFICATION DSpec
CONSTANTS
  D = %d
  DS = %d
  NC = %d
  Inputs <- InDef
  Gates <- GDef
  Losses <- LDef
  MeasSets <- MDef
  Perm <- PDef
  CommuteDepth = 0
  MaxDepth = %d
  Measure = FALSE
  Export = FALSE
  Photons <- PhDef
  ExportDist = TRUE
INVARIANT DCheck
"""

R = L.ring


def ph_record(ms, ws):
    return "[ms |-> <<%s>>, w |-> <<%s>>]" % (", ".join(map(str, ms)), ", ".join("<<" + ", ".join(L.tla_ring(x) for x in w) + ">>" for w in ws))


def module(name, gates, photons, losses=()):
    gdef = "<< " + ",\n  ".join(L.gate_record(g) for g in gates) + " >>"
    ldef = "<< " + ",\n  ".join(L.gate_record(g) for g in losses) + " >>"
    pdef = "{ " + ",\n ".join(ph_record(p["ms"], p["w"]) for p in photons) + " }"
    return f"---- MODULE {name} ----\nEXTENDS PqDistinguish\nGDef == {gdef}\nPhDef == {pdef}\nInDef == {{}}\nLDef == {ldef}\nMDef == {{}}\nPDef == <<>>\n====\n"


def first_quantized(occ):
    return tuple(m for m, k in enumerate(occ) for _ in range(k))


def uniform_photons(occ, a, b, nc):
    """photon i in the internal state (a e_0 + b e_i) / sqrt(a^2 + b^2): uniform amplitude overlap a^2 / (a^2 + b^2)"""
    ms = first_quantized(occ)
    n = len(ms)
    assert nc >= n + 1
    w = [[R(a)] + [R(b) if c == i + 1 else R(0) for c in range(1, nc)] for i in range(n)]
    return {"ms": ms, "w": w, "occ": tuple(occ), "overlap": a * a / (a * a + b * b), "kind": "uniform"}


def gram_photons(occ, vecs, nc):
    """general internal vectors (Gaussian-integer numerators)"""
    ms = first_quantized(occ)
    assert len(vecs) == len(ms)
    w = [[R(int(z.real), 0, int(z.imag), 0) for z in v] + [R(0)] * (nc - len(v)) for v in vecs]
    V = np.array([[complex(z) for z in v] + [0.0] * (nc - len(v)) for v in vecs], dtype=complex)
    V = V / np.linalg.norm(V, axis=1)[:, None]
    G = V.conj() @ V.T
    return {"ms": ms, "w": w, "occ": tuple(occ), "overlap": G, "kind": "gram"}


def explore(ctx, ds, nc, gates, photons, depth, losses=()):
    res = run_tlc("MCD", "MCD.cfg", generated={"MCD.tla": module("MCD", gates, photons, losses), "MCD.cfg": CFG % (ds * nc, ds, nc, depth)}, timeout=3000)
    # 32-bit integers: deep states of many-mode instances can overflow (a TLC error, never silent): explore one step less and record it
    while "Overflow when computing" in res.out and depth > 1:
        depth -= 1
        ctx.notes.setdefault("distinguish_overflow_reductions", []).append({"spatial_modes": ds, "internal_components": nc, "depth_reduced_to": depth})
        res = run_tlc("MCD", "MCD.cfg", generated={"MCD.tla": module("MCD", gates, photons, losses), "MCD.cfg": CFG % (ds * nc, ds, nc, depth)}, timeout=3000)
    if "Overflow when computing" in res.out:
        ctx.notes.setdefault("distinguish_overflow_reductions", []).append({"spatial_modes": ds, "internal_components": nc, "unresolved": True})
        return []
    if res.violated:
        ctx.report("spec:PqDistinguish:" + ",".join(map(str, res.violated)), "PqDistinguish violates its own theorem (oracle broken)", res.out[-2000:])
        return []
    if "Error:" in res.out:
        raise MachineryError("PqDistinguish run failed:\n" + "\n".join(l for l in res.out.splitlines() if not l.startswith('<<"DIST"'))[-2500:])
    ctx.add_tlc(res)
    out, seen = [], set()
    for r in res.records("DIST"):
        inp = r["hist"][0]["input"]
        key = repr(r["hist"])
        if key in seen:
            continue
        seen.add(key)
        # identify the photon record (ms and w are exported verbatim)
        ph = next(p for p in photons if list(p["ms"]) == list(inp["ms"]) and [[list(x) for x in w] for w in p["w"]] == [[list(x) for x in w] for w in inp["w"]])
        law = {}
        for k, v in r["law"].items():
            law[tuple(int(x) for x in re.findall(r"-?\d+", k))] = (v[0] + v[1] * L.SQ2) / r["den"]
        out.append({"photons": ph, "steps": r["hist"][1:], "law": law})
    return out
