"""Trace recorder for Simulator.execute_instructions (attribute patching from outside the repository;
no source hook).  One trace = list of events (see spec/PqEngineTrace.tla).  Events are logged on the
error path too.  Nested executions (batch instructions) are not modelled: such traces are flagged
`outside` and skipped by the validator (never reported as violations)."""
import json
from fractions import Fraction

WUNIT = 10000
# measurement classes whose branches must carry the normalised post-measurement state (C03)
PROJECTIVE = {"ParticleNumberMeasurement", "ThresholdMeasurement", "HomodyneMeasurement", "HeterodyneMeasurement",
              "GeneraldyneMeasurement"}


def _enc_outcome(o):
    out = []
    for v in (o if o is not None else ()):
        try:
            import numpy as np
            if isinstance(v, (int, np.integer)) and not isinstance(v, bool):
                out.append(str(int(v)))
                continue
            if isinstance(v, (float, np.floating)):
                out.append(repr(float(v)))
                continue
        except Exception:
            pass
        out.append(repr(v))
    return out


class EngineRecorder:
    def __init__(self, max_traces=None):
        self.traces = []
        self.cur = None
        self.depth = 0
        self.max_traces = max_traces
        self._undo = []
        self.installed = False

    # ------------------------------------------------------------------
    def install(self):
        import piquasso as pq
        from piquasso.api.simulator import Simulator
        from piquasso.api.instruction import Instruction, Measurement, Preparation
        rec = self
        self.Measurement, self.Preparation = Measurement, Preparation

        def patch(obj, name, new):
            old = obj.__dict__[name]
            self._undo.append((obj, name, old))
            setattr(obj, name, new)
            return old

        # ---- execute_instructions: begin / end -------------------------------------------
        old_exec = Simulator.__dict__["execute_instructions"]

        def execute_instructions(sim, instructions, initial_state=None, shots=1):
            if rec.depth > 0 or (rec.max_traces is not None and len(rec.traces) >= rec.max_traces):
                if rec.cur is not None and rec.depth > 0:
                    rec.cur_meta["outside"] = "nested execution"
                rec.depth += 1
                try:
                    return old_exec(sim, instructions, initial_state=initial_state, shots=shots)
                finally:
                    rec.depth -= 1
            rec.depth += 1
            trace = []
            rec.cur = trace
            rec.cur_meta = {"sim": type(sim).__name__}
            rec.cur_instrs = list(instructions)
            rec.cur_shots = shots
            rec.cur_i = 0
            try:
                trace.append(rec._begin_event(sim, instructions, initial_state, shots))
            except Exception as e:  # unmodellable program (e.g. odd mode objects)
                rec.cur_meta["outside"] = f"begin event: {type(e).__name__}: {e}"
                trace.append({"e": "begin"})
            status, exc, result = "done", "", None
            try:
                result = old_exec(sim, instructions, initial_state=initial_state, shots=shots)
                return result
            except BaseException as e:
                status, exc = "failed", type(e).__name__
                raise
            finally:
                try:
                    trace.append(rec._end_event(sim, instructions, shots, status, exc, result))
                except Exception as e:
                    rec.cur_meta["outside"] = f"end event: {type(e).__name__}: {e}"
                rec.traces.append({"meta": rec.cur_meta, "events": trace})
                rec.cur = None
                rec.depth -= 1

        patch(Simulator, "execute_instructions", execute_instructions)

        # ---- _apply_instruction_to_branches: ibegin / iend --------------------------------
        old_apply = Simulator.__dict__["_apply_instruction_to_branches"]

        def _apply(sim, branches, instruction, shots):
            top = rec.cur is not None and rec.depth == 1
            if top:
                rec.cur_i += 1
                rec.cur_branch = 0
                rec.cur.append({"e": "ibegin", "i": rec.cur_i, "remapped": [int(m) for m in instruction.modes]})
            res = old_apply(sim, branches, instruction, shots)
            if top:
                rec.cur.append({"e": "iend", "i": rec.cur_i, "branches": [rec._enc_branch(b, shots) for b in res]})
            return res

        patch(Simulator, "_apply_instruction_to_branches", _apply)

        # ---- condition / resolve / unresolve ---------------------------------------------
        old_cond = Instruction.__dict__["_is_condition_met"]

        def _is_condition_met(ins, outcomes):
            top = rec.cur is not None and rec.depth == 1
            if top:
                rec.cur_branch += 1
            try:
                r = old_cond(ins, outcomes)
            except BaseException:
                if top:
                    rec.cur.append({"e": "cond", "i": rec.cur_i, "b": rec.cur_branch, "v": "raise"})
                raise
            if top:
                rec.cur.append({"e": "cond", "i": rec.cur_i, "b": rec.cur_branch, "v": "T" if r else "F"})
            return r

        patch(Instruction, "_is_condition_met", _is_condition_met)

        old_res = Instruction.__dict__["_resolve_params"]

        def _resolve_params(ins, outcomes):
            top = rec.cur is not None and rec.depth == 1
            try:
                r = old_res(ins, outcomes)
            except BaseException:
                if top:
                    rec.cur.append({"e": "resolve", "ok": False})
                raise
            if top:
                rec.cur.append({"e": "resolve", "ok": True})
            return r

        patch(Instruction, "_resolve_params", _resolve_params)

        old_unres = Instruction.__dict__["_unresolve_params"]

        def _unresolve_params(ins):
            r = old_unres(ins)
            if rec.cur is not None and rec.depth == 1:
                rec.cur.append({"e": "unresolve"})
            return r

        patch(Instruction, "_unresolve_params", _unresolve_params)

        # ---- _validate of every instruction class ----------------------------------------
        def wrap_validate(cls):
            old = cls.__dict__["_validate"]

            def _validate(ins, connector):
                if getattr(ins, "_verif_in_validate", False):      # super()._validate chains: log the outermost only
                    return old(ins, connector)
                top = rec.cur is not None and rec.depth == 1
                ins._verif_in_validate = True
                try:
                    r = old(ins, connector)
                except BaseException as e:
                    if top:
                        rec.cur.append({"e": "validate", "ok": False, "exc": type(e).__name__})
                    raise
                finally:
                    ins._verif_in_validate = False
                if top:
                    rec.cur.append({"e": "validate", "ok": True, "exc": ""})
                return r

            patch(cls, "_validate", _validate)

        seen = set()

        def walk(cls):
            if cls in seen:
                return
            seen.add(cls)
            if "_validate" in cls.__dict__:
                wrap_validate(cls)
            for sub in cls.__subclasses__():
                walk(sub)

        walk(Instruction)

        # ---- simulation step --------------------------------------------------------------
        old_get = Simulator.__dict__["_get_simulation_step"]

        def _get_simulation_step(sim, instruction):
            step = old_get(sim, instruction)
            if rec.cur is None or rec.depth != 1:
                return step

            def logged_step(state, ins, shots=None, **kw):
                norm = rec._norm(state)
                try:
                    subs = step(state, ins, shots=shots, **kw)
                except BaseException as e:
                    rec.cur.append({"e": "step", "ok": False, "exc": type(e).__name__})
                    raise
                try:
                    enc = [rec._enc_sub(b, shots) for b in subs]
                    # dense renumbering of the state objects returned by this step (0 = no state): aliasing check
                    ids = {}
                    for x, b in zip(enc, subs):
                        x["sid"] = 0 if b.state is None else ids.setdefault(id(b.state), len(ids) + 1)
                    rec.cur.append({"e": "step", "ok": True, "cur_shots": -1 if shots is None else int(shots),
                                    "norm": norm, "exact": all(x.pop("exact") for x in enc), "subs": enc})
                except Exception as e:
                    rec.cur_meta["outside"] = f"step event: {type(e).__name__}: {e}"
                return subs

            return logged_step

        patch(Simulator, "_get_simulation_step", _get_simulation_step)
        self.installed = True
        return self

    def uninstall(self):
        for obj, name, old in reversed(self._undo):
            setattr(obj, name, old)
        self._undo = []
        self.installed = False

    # ------------------------------------------------------------------
    def _norm(self, state):
        try:
            n = float(state.norm)
            return int(round(n * WUNIT))
        except Exception:
            return WUNIT

    def _enc_sub(self, b, cur_shots):
        f = b.frequency
        sn = -1
        if cur_shots is None:
            if b.state is not None:
                try:
                    sn = int(round(float(b.state.norm) * WUNIT))
                except Exception:
                    sn = -1
            return {"o": _enc_outcome(b.outcome), "k": 0, "wn": int(round(float(f) * WUNIT)), "wd": WUNIT, "sn": sn, "exact": True}
        kk = f * cur_shots
        exact = isinstance(f, Fraction) and kk == int(kk)
        return {"o": _enc_outcome(b.outcome), "k": int(kk), "wn": 1, "wd": 1, "sn": sn, "exact": bool(exact)}

    def _enc_branch(self, b, shots):
        f = b.frequency
        if shots is None:
            return {"o": _enc_outcome(b.outcome), "k": 0, "wn": int(round(float(f) * WUNIT)), "exact": True}
        kk = f * shots
        exact = isinstance(f, Fraction) and kk == int(kk)
        return {"o": _enc_outcome(b.outcome), "k": int(kk), "wn": 1, "exact": bool(exact)}

    def _begin_event(self, sim, instructions, initial_state, shots):
        prog = []
        for ins in instructions:
            kind = "meas" if isinstance(ins, self.Measurement) else ("prep" if isinstance(ins, self.Preparation) else "gate")
            modes = [int(m) for m in ins.modes]
            sup = any(type(ins) is c for c in sim._instruction_map.keys())
            prog.append({
                "kind": kind, "modes": modes, "cond": "none" if ins._condition is None else "opaque",
                "unres": not ins._is_resolved(), "sup": bool(sup),
                "midok": bool(isinstance(ins, sim._measurement_classes_allowed_mid_circuit)),
                "noneok": bool(isinstance(ins, sim._measurement_classes_allowed_with_shots_none)),
                "nmodes": int(ins.NUMBER_OF_MODES or 0), "cls": type(ins).__name__,
                "normproj": type(ins).__name__ in PROJECTIVE,
                "emits": kind == "meas" and "PostSelect" not in type(ins).__name__,
            })
        if shots is None:
            sh = 0
        elif isinstance(shots, int) and not isinstance(shots, bool) and shots > 0 and shots < 10 ** 6:
            sh = int(shots)
        elif isinstance(shots, bool) and shots:
            sh = 1          # isinstance(True, int): accepted by the code as 1 shot
        else:
            sh = -1
        st = "none"
        if initial_state is not None:
            if not isinstance(initial_state, sim._state_class):
                st = "wrongclass"
            else:
                st = "ok"   # d mismatch decided below when d is known
                dd = sim.d or None
                if dd is None:
                    ms = [max(p["modes"]) + 1 for p in prog if p["modes"]]
                    dd = max(ms) if ms else None
                if dd is not None and initial_state.d != dd:
                    st = "wrongd"
        self._orig_modes = [list(p["modes"]) for p in prog]
        self._orig_params = [dict(ins._params) for ins in instructions]
        return {"e": "begin", "prog": prog, "simd": int(sim.d or 0), "shots": sh, "stateOK": st}

    def _end_event(self, sim, instructions, shots, status, exc, result):
        stored = [[int(m) for m in ins.modes] for ins in instructions]
        resolved = []
        for i, ins in enumerate(instructions, 1):
            for name, val in ins._unresolved_params.items():
                cur = ins._params.get(name)
                orig = self._orig_params[i - 1].get(name) if i - 1 < len(self._orig_params) else None
                # resolved = neither the unresolved object nor what the user originally passed
                if cur is not val and cur is not orig:
                    resolved.append(i)
                    break
        ev = {"e": "end", "status": status, "exc": exc, "stored": stored, "resolved": resolved,
              "nsamples": -1, "counts_sum": -1}
        if status == "done" and shots is not None and result is not None:
            try:
                ev["nsamples"] = len(result.samples)
            except Exception:
                ev["nsamples"] = -2
            try:
                if all(len(b.outcome) == 0 for b in result.branches):
                    ev["counts_sum"] = -1      # no measurement in the program: nothing to count
                else:
                    ev["counts_sum"] = int(sum(result.get_counts().values()))
            except NotImplementedError:
                ev["counts_sum"] = -1
            except Exception:
                ev["counts_sum"] = -2
        return ev

    def dump(self, path):
        with open(path, "w") as f:
            json.dump(self.traces, f)
