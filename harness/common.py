"""Shared machinery: TLC runner, behaviour-export parser, evidence writer, findings filter.

Every check module exposes ``run(ctx)``; ``ctx`` is a :class:`Ctx`.
Exit codes of ./check: 0 = held on everything explored (KNOWN-FINDING lines allowed),
1 = VIOLATION, 2 = machinery failure (never a verdict).
"""
import hashlib
import json
import os
import re
import shutil
import subprocess
import sys
import tempfile
import time
from pathlib import Path

VERIF = Path(__file__).resolve().parent.parent
SPEC = VERIF / "spec"
EVID = VERIF / "evidence"
REPLAYS = VERIF / "replays"
KNOWN = VERIF / "known_findings.json"
TLA_JAR = "/opt/veriftools/tla/tla2tools.jar"


class MachineryError(Exception):
    """Tool trouble (TLC crashed, parse failure, ...) -> exit 2, never a verdict."""


def community_cp():
    cands = [p for p in Path("/opt/veriftools/tla").glob("*.jar")]
    return ":".join(str(p) for p in cands)


class TLCResult:
    def __init__(self, out, rc, wall):
        self.out = out
        self.rc = rc
        self.wall = wall
        m = re.search(r"(\d+) states generated, (\d+) distinct states found, (\d+) states left", out)
        self.generated = int(m.group(1)) if m else 0
        self.distinct = int(m.group(2)) if m else 0
        m2 = re.search(r"The depth of the complete state graph search is (\d+)", out)
        self.depth = int(m2.group(1)) if m2 else 0
        self.violated = re.findall(r"Invariant (\S+) is violated", out) + re.findall(
            r"Action property (\S+) is violated", out) + re.findall(r"Temporal properties were violated", out)
        self.error = ("Error:" in out) and not self.violated
        self.finished = "Model checking completed. No error has been found." in out or \
            "Finished in" in out and not self.violated and "Error:" not in out
        # simulation mode prints progress differently
        ms = re.findall(r"Progress: (\d+) states checked, (\d+) traces generated", out)
        if ms:
            self.generated = max(self.generated, int(ms[-1][0]))
            self.traces = int(ms[-1][1])
        else:
            self.traces = 0

    def records(self, tag="BEHAV"):
        """PrintT(<<tag, ToJson(x)>>) lines -> list of python objects."""
        res = []
        pat = re.compile(r'^<<"' + re.escape(tag) + r'", "(.*)">>$')
        for line in self.out.splitlines():
            m = pat.match(line)
            if m:
                s = m.group(1)
                s = s.replace('\\"', '"').replace("\\\\", "\\")
                res.append(json.loads(s))
        # TLC's workers print in a nondeterministic order: a canonical order makes every seeded sample of the records reproducible
        res.sort(key=lambda r: json.dumps(r, sort_keys=True))
        return res

    def coverage_zero(self):
        """Actions reported with 0 count by -coverage (vacuity guard)."""
        z = []
        for m in re.finditer(r"<(\w+) line \d+, col \d+ to line \d+, col \d+ of module (\w+)>: (\d+):(\d+)", self.out):
            if int(m.group(3)) == 0 and int(m.group(4)) == 0:
                z.append(m.group(1))
        return z

    def action_counts(self):
        c = {}
        for m in re.finditer(r"<(\w+) line \d+, col \d+ to line \d+, col \d+ of module (\w+)>: (\d+):(\d+)", self.out):
            c[m.group(1)] = c.get(m.group(1), 0) + int(m.group(4))
        return c


def run_tlc(module, cfg=None, spec_dir=SPEC, workers=16, simulate=None, depth=None, seed=None,
            timeout=3600, env=None, coverage=False, extra=(), deadlock=False, workdir=None,
            generated=None, heap="8g", dfs=False):
    """Run TLC on spec_dir/module.tla with cfg.  ``generated`` = {filename: text} extra files
    (MC wrappers, cfgs, trace json) written into a scratch copy of the spec directory."""
    tmp = Path(tempfile.mkdtemp(prefix="tlc_", dir=workdir))
    try:
        for p in Path(spec_dir).glob("*.tla"):
            shutil.copy(p, tmp / p.name)
        for p in Path(spec_dir).glob("*.cfg"):
            shutil.copy(p, tmp / p.name)
        for name, text in (generated or {}).items():
            (tmp / name).write_text(text)
        cmd = ["java", f"-Xmx{heap}", "-Xss48m", "-XX:+UseParallelGC"]      # deep RECURSIVE operators (traces with hundreds of branches)
        if dfs:
            cmd.append("-Dtlc2.tool.queue.IStateQueue=StateDeque")
        cmd += ["-cp", TLA_JAR + ":" + community_cp(), "tlc2.TLC", "-workers", str(workers),
                "-metadir", str(tmp / "meta"), "-noGenerateSpecTE"]
        if not deadlock:
            cmd.append("-deadlock")
        if coverage:
            cmd += ["-coverage", "1"]
        if simulate is not None:
            cmd += ["-simulate", f"num={simulate}"]
            if depth:
                cmd += ["-depth", str(depth)]
        if seed is not None:
            cmd += ["-seed", str(seed)]
        cmd += list(extra)
        cmd += ["-config", cfg or (module + ".cfg"), module]
        e = dict(os.environ)
        e.update(env or {})
        t0 = time.time()
        try:
            p = subprocess.run(cmd, cwd=tmp, capture_output=True, text=True, timeout=timeout, env=e)
        except subprocess.TimeoutExpired as ex:
            raise MachineryError(f"TLC timeout on {module}/{cfg}") from ex
        out = p.stdout + p.stderr
        return TLCResult(out, p.returncode, time.time() - t0)
    finally:
        shutil.rmtree(tmp, ignore_errors=True)


def tlc_ok(res, what):
    """Model checking must complete without error; otherwise machinery failure or spec-level violation."""
    if res.violated:
        return False
    if res.error or res.rc not in (0,):
        tail = "\n".join(res.out.splitlines()[-40:])
        raise MachineryError(f"TLC failed on {what} (rc={res.rc}):\n{tail}")
    return True


class Ctx:
    def __init__(self, pid, tier, seed):
        self.pid = pid
        self.tier = tier
        self.seed = seed
        self.t0 = time.time()
        self.violations = []
        self.known_hits = []
        self.cov = {"states": 0, "transitions": 0, "traces_validated_against_impl": 0, "samples": [],
                    "evaluations": 0, "distinct_nontrivial": 0}
        self.assumptions = []
        self.level = "model_checking"
        self.notes = {}
        self._distinct = set()
        self._fallback_samples = []
        self.rule = ("cases are the behaviours / inputs exported by TLC from the specification (or enumerated by the check) and replayed on the implementation; "
                     "distinct = distinct case keys (input, operation sequence, parameters), counted by hashing the key; non-trivial = flagged by the check "
                     "(at least one operation applied / more than one outcome / non-zero expected value)")
        try:
            self.known = json.loads(KNOWN.read_text())["findings"]
        except FileNotFoundError:
            self.known = []

    # ---- coverage bookkeeping -------------------------------------------------
    def add_tlc(self, res):
        self.cov["states"] += res.distinct
        self.cov["transitions"] += res.generated

    def sample(self, obj, limit=6):
        if len(self.cov["samples"]) < limit:
            self.cov["samples"].append(obj)

    def case(self, key, nontrivial=True):
        """Count one evaluated case; key identifies distinctness."""
        self.cov["evaluations"] += 1
        if len(self._fallback_samples) < 4:
            self._fallback_samples.append(key)
        if nontrivial:
            h = hashlib.sha1(repr(key).encode()).digest()[:8]
            self._distinct.add(h)

    def tick(self, label):
        """phase timing (written to the evidence as coverage.phase_s)"""
        now = time.time()
        last = getattr(self, "_last_tick", self.t0)
        self.notes.setdefault("phase_s", {})[label] = round(now - last, 1)
        self._last_tick = now

    def validated(self, n=1):
        self.cov["traces_validated_against_impl"] += n

    # ---- verdicts -------------------------------------------------------------
    def report(self, key, what, replay=None):
        """A property violation observed on the implementation.  ``key`` is the specific
        signature compared against known_findings.json (exact match or listed prefix)."""
        for k in self.known:
            if k.get("property") == self.pid and k.get("status") == "known" and _key_match(k["key"], key):
                if (k["key"], what) not in [(a, b) for a, b, _ in self.known_hits]:
                    pass
                self.known_hits.append((k["key"], what, key))
                return False
        REPLAYS.mkdir(exist_ok=True)
        d = REPLAYS / self.pid
        d.mkdir(exist_ok=True)
        h = hashlib.sha1(repr(key).encode()).hexdigest()[:12]
        path = d / f"{h}.json"
        path.write_text(json.dumps({"property": self.pid, "key": key, "what": what, "replay": replay},
                                   indent=1, default=str))
        self.violations.append((key, what, str(path)))
        return True

    def finish(self):
        self.cov["distinct_nontrivial"] = len(self._distinct)
        wall = time.time() - self.t0
        printed = set()
        for k, what, key in self.known_hits:
            if k not in printed:
                printed.add(k)
                n = sum(1 for a, _, _ in self.known_hits if a == k)
                print(f"KNOWN-FINDING: property={self.pid} {k} :: {what} ({n} occurrence(s))")
        for key, what, path in self.violations[:50]:
            print(f"VIOLATION property={self.pid} replay={path} :: {what}")
        if not self.cov["samples"]:
            self.cov["samples"] = [{"case_key": k} for k in self._fallback_samples]
        cov = dict(self.cov)
        cov.setdefault("rule", self.rule)
        cov.update(self.notes)
        cov["known_finding_hits"] = len(self.known_hits)
        ev = {
            "property_id": self.pid, "tier": self.tier, "seed": self.seed, "level": self.level,
            "coverage": cov, "assumptions": self.assumptions, "wall_s": round(wall, 2),
            "violations": len(self.violations),
        }
        EVID.mkdir(exist_ok=True)
        (EVID / f"{self.pid}.json").write_text(json.dumps(ev, indent=1, default=str) + "\n")
        print(f"[{self.pid}] tier={self.tier} seed={self.seed} states={cov['states']} "
              f"evaluations={cov['evaluations']} distinct={cov['distinct_nontrivial']} "
              f"validated={cov['traces_validated_against_impl']} known={len(self.known_hits)} "
              f"violations={len(self.violations)} wall={wall:.1f}s")
        return 1 if self.violations else 0


def _key_match(pattern, key):
    """exact match, or a pattern in which every '*' stands for any (possibly empty) run of characters"""
    if pattern == key:
        return True
    if "*" not in pattern:
        return False
    parts = pattern.split("*")
    if not key.startswith(parts[0]) or not key.endswith(parts[-1]):
        return False
    pos = len(parts[0])
    end = len(key) - len(parts[-1])
    for mid in parts[1:-1]:
        i = key.find(mid, pos, end)
        if i < 0:
            return False
        pos = i + len(mid)
    return pos <= end


def tla_seq(xs):
    """Python nested list/tuple/int/str/bool -> TLA+ literal."""
    if isinstance(xs, bool):
        return "TRUE" if xs else "FALSE"
    if isinstance(xs, int):
        return str(xs)
    if isinstance(xs, str):
        return '"' + xs + '"'
    if isinstance(xs, dict):
        return "[" + ", ".join(f"{k} |-> {tla_seq(v)}" for k, v in xs.items()) + "]"
    return "<<" + ", ".join(tla_seq(x) for x in xs) + ">>"
