"""Exact law of a randomised implementation by exhaustive enumeration of its RNG decisions.

The real sampler is executed with a *scripted* random generator.  Every request for randomness
(`rng.choice(a, p=...)`, comparisons against `rng.random()` / `rng.uniform()`) is a decision point; the
probabilities the CODE hands to the generator are recorded, the scripted option is returned.  A depth-first
driver re-runs the code once per root-to-leaf path of the decision tree, so that

    law_impl(outcome) = SUM over paths ending in `outcome` of PROD of the recorded branch probabilities

is the exact output distribution of the implementation under an ideal generator (no statistics, no seeds).
Continuous draws (multivariate_normal, normal, ...) are not decisions: they raise Unsupported, which callers
record as 'not applicable' for that sampler.
"""
import numpy as np

EPS = 1e-15


class Unsupported(Exception):
    pass


class Probe(np.float64):
    """The value of one uniform draw u in [0, 1), never materialised: only comparisons are answered, each
    consistently with the interval (lo, hi] the earlier answers confined u to."""

    def __new__(cls, rng):
        obj = super().__new__(cls, 0.5)
        obj._rng = rng
        obj._lo, obj._hi = 0.0, 1.0
        return obj

    def _ask(self, x, what):
        """decide whether u <= x; returns True/False"""
        x = float(x)
        lo, hi = self._lo, self._hi
        if x <= lo:
            p_le = 0.0
        elif x >= hi:
            p_le = 1.0
        else:
            p_le = (x - lo) / (hi - lo)
        ans = self._rng._decide([1.0 - p_le, p_le], "uniform", {"threshold": x, "cmp": what})
        if ans == 1:
            self._hi = min(hi, x)
        else:
            self._lo = max(lo, x)
        return bool(ans)

    # u > x  <=>  not (u <= x)
    def __gt__(self, x):
        return not self._ask(x, ">")

    def __le__(self, x):
        return self._ask(x, "<=")

    # u < x and u >= x: equality has probability zero
    def __lt__(self, x):
        return self._ask(x, "<")

    def __ge__(self, x):
        return not self._ask(x, ">=")

    def _no(self, *a, **k):
        raise Unsupported("arithmetic on a uniform draw")

    __add__ = __radd__ = __sub__ = __rsub__ = __mul__ = __rmul__ = __truediv__ = __rtruediv__ = _no
    __float__ = _no


class ScriptRNG:
    def __init__(self, script=()):
        self.script = list(script)
        self.pos = 0
        self.log = []      # (kind, probs, chosen, info)

    # -- decision core ------------------------------------------------------------------------------
    def _decide(self, probs, kind, info=None):
        probs = [float(x) for x in probs]
        if self.pos < len(self.script):
            c = self.script[self.pos]
        else:
            c = next(i for i, x in enumerate(probs) if x > EPS)
        self.pos += 1
        self.log.append((kind, probs, c, info))
        return c

    def weight(self):
        w = 1.0
        for _, probs, c, _ in self.log:
            w *= probs[c]
        return w

    # -- numpy Generator surface used by piquasso -------------------------------------------------------
    def choice(self, a, size=None, replace=True, p=None, axis=0, shuffle=True):
        arr = np.arange(a) if np.ndim(a) == 0 else np.asarray(a)
        n = len(arr)
        if p is None:
            probs = [1.0 / n] * n
        else:
            probs = [float(x) for x in np.asarray(p, dtype=float)]
            if len(probs) != n:
                raise ValueError("a and p must have same size")
            if any(x != x for x in probs):          # numpy's Generator.choice does the same
                raise ValueError("probabilities contain NaN")
            if any(x < 0 for x in probs):
                raise ValueError("probabilities are not non-negative")
        info = {"p_sum": float(sum(probs)), "p": probs if p is not None else None}
        if size is None:
            return arr[self._decide(probs, "choice", info)]
        if not replace:
            raise Unsupported("choice without replacement")
        k = int(np.prod(size))
        out = np.array([arr[self._decide(probs, "choice", info)] for _ in range(k)])
        return out.reshape(size)

    def random(self, size=None):
        if size is not None:
            raise Unsupported("vector uniform")
        return Probe(self)

    def uniform(self, low=0.0, high=1.0, size=None):
        if size is not None or low != 0.0 or high != 1.0:
            raise Unsupported("general uniform")
        return Probe(self)

    def __deepcopy__(self, memo):
        return self

    def __getattr__(self, name):
        if name.startswith("__"):
            raise AttributeError(name)

        def f(*a, **k):
            raise Unsupported("rng." + name)
        return f


def enumerate_paths(run, max_paths=200000):
    """run(rng) -> outcome (hashable) ; returns list of (outcome, weight, log).  `run` must be deterministic
    given the decisions."""
    results = []
    stack = [[]]
    while stack:
        prefix = stack.pop()
        rng = ScriptRNG(prefix)
        outcome = run(rng)
        if rng.pos < len(prefix):
            raise RuntimeError("script longer than the decisions taken (non-deterministic run?)")
        log = rng.log
        results.append((outcome, rng.weight(), log))
        if len(results) > max_paths:
            raise Unsupported("too many paths")
        chosen = [c for _, _, c, _ in log]
        for i in range(len(prefix), len(log)):
            _, probs, c, _ = log[i]
            for alt, pa in enumerate(probs):
                if alt != c and pa > EPS:
                    stack.append(chosen[:i] + [alt])
    return results


def law(results, accept=lambda o: True):
    acc, tot, rej = {}, 0.0, 0.0
    for o, w, _ in results:
        tot += w
        if accept(o):
            acc[o] = acc.get(o, 0.0) + w
        else:
            rej += w
    return acc, tot, rej
