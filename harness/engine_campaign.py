"""Shared campaign for the engine properties (C03 / C12 / C13): TLC on MCEngine, behaviour export,
replay with forced outcome histories and injected faults, trace validation, natural runs."""
import copy
import json
import random
import re
import warnings

import numpy as np

from .common import run_tlc, tlc_ok, MachineryError, SPEC
from .recorder import EngineRecorder
from . import engine_replay as ER
from . import engine_traces as ET


def _cfg(name, **kw):
    t = (SPEC / name).read_text()
    for k, v in kw.items():
        t = re.sub(rf"^\s*{k} = .*$", f"  {k} = {v}", t, flags=re.M)
    return t


def model_check(ctx, cfgname, **over):
    res = run_tlc("MCEngine", "MC.cfg", generated={"MC.cfg": _cfg(cfgname, **over)}, timeout=3000)
    if not tlc_ok(res, f"MCEngine/{cfgname}"):
        ctx.report(f"spec:MCEngine:{cfgname}:" + ",".join(map(str, res.violated)),
                   f"specification-level violation in MCEngine ({cfgname})", res.out[-3000:])
        return None
    ctx.add_tlc(res)
    return res


def export_behaviours(ctx, cfgname, num, depth=80, seed=0, **over):
    """random behaviours of MCEngine (terminal states) via TLC -simulate"""
    cfg = _cfg(cfgname, **over) + "INVARIANT ExportEnd\n"
    res = run_tlc("MCEngine", "MC.cfg", generated={"MC.cfg": cfg}, simulate=num, depth=depth, seed=seed, timeout=3000)
    if res.violated or "Error:" in res.out:
        raise MachineryError(f"behaviour export failed ({cfgname}):\n" + res.out[-2000:])
    ctx.add_tlc(res)
    seen, out = set(), []
    for b in res.records("BEHAV"):
        key = json.dumps(b, sort_keys=True)
        if key not in seen:
            seen.add(key)
            out.append(b)
    return out


def snapshot(instrs):
    """what the caller passed in, as comparable data (C12 frame)"""
    snap = []
    for ins in instrs:
        params = {}
        for k, v in ins._params.items():
            if isinstance(v, np.ndarray):
                params[k] = ("nd", v.dtype.str, v.shape, v.tobytes())
            elif callable(v) and not hasattr(v, "_src"):
                params[k] = ("callable", id(v))
            else:
                params[k] = ("val", str(v))     # str -> Expression(str) has the same text: not a change of value
        snap.append((type(ins).__name__, tuple(ins.modes), params, None if ins._condition is None else str(ins._condition)))
    return snap


def replay_behaviour(ctx, pq, b, rec, d, pid, check_frame=True):
    """returns 'skip' or 'ok'; reports violations through ctx"""
    shape = b["prog"]
    if not ER.shape_supported(shape, d):
        return "skip"
    with warnings.catch_warnings():
        warnings.simplefilter("ignore")
        instrs, npr, nps, segments = ER.instantiate(pq, shape, d, "PureFockSimulator")
    f = ER.Forcer(b, npr, nps)
    f.segments = segments
    f.sym_prefix = ()
    shots = None if b["shots"] == 0 else b["shots"]
    if b["shots"] < 0:
        shots = 0
    sim = pq.PureFockSimulator(d=d if b["simd"] else None, config=pq.Config(cutoff=d + 1, seed_sequence=7))
    before = snapshot(instrs)
    prog = pq.Program(instructions=instrs)
    try:
        f.install(instrs)
    except NotImplementedError:
        f.uninstall()
        return "skip"
    rec.install()
    status, exc, result = "done", "", None
    try:
        with warnings.catch_warnings():
            warnings.simplefilter("ignore")
            result = sim.execute(prog, shots=shots)
    except Exception as e:  # noqa
        status, exc = "failed", type(e).__name__
    finally:
        rec.uninstall()
        f.uninstall()
    key = json.dumps({"prog": [{k: s[k] for k in ("kind", "modes", "cond", "unres")} for s in shape], "shots": b["shots"],
                      "phase": b["phase"], "exc": b["exc"], "at": [b["pc"], b["bidx"], b["stage"]]}, sort_keys=True)
    ctx.case(key)
    replay = {"behaviour": b, "d": d}
    # ---- spec -> code: status, exception class, final branches
    exp_exc = b["exc"]
    if exp_exc == "RuntimeError":
        exp_exc = "Injected"
    if status != b["phase"]:
        ctx.report(f"{pid}:status:{key}", f"behaviour ends {b['phase']}({b['exc']}) but the engine ended {status}({exc})", replay)
    elif status == "failed" and exc != exp_exc:
        ctx.report(f"{pid}:exc:{key}", f"behaviour fails with {b['exc']} but the engine raised {exc}", replay)
    elif status == "done" and shots:
        got = sorted(project_counts(f, result, shots))
        exp = sorted((tuple(int(x) for x in br["o"]), int(br["k"])) for br in b["branches"])
        if got != exp:
            ctx.report(f"{pid}:branches:{key}", f"final branches differ: engine {got} vs behaviour {exp}", replay)
        else:
            try:
                ns = len(result.samples)
                cs = sum(result.get_counts().values()) if any(len(br.outcome) for br in result.branches) else shots
            except Exception as e:  # noqa
                ns = cs = f"{type(e).__name__}"
            if ns != shots or cs != shots:
                ctx.report(f"{pid}:accounting:{key}", f"len(samples)={ns}, sum(counts)={cs}, shots={shots}", replay)
    # ---- frame (C12): the caller's objects after the call
    if check_frame:
        after = snapshot(instrs)
        if after != before:
            diff = [i for i, (x, y) in enumerate(zip(before, after)) if x != y]
            where = "return" if status == "done" else f"raise:{b['stage']}"
            ctx.report(f"{pid}:frame:{where}:{'modes' if any(before[i][1] != after[i][1] for i in diff) else 'params'}",
                       f"caller's instructions changed after execute ({where}): instr {diff}: "
                       f"{[(before[i][1], after[i][1]) for i in diff][:3]}", replay)
    return "ok"


def project_counts(f, result, shots):
    acc = {}
    for br in result.branches:
        syms = f.to_symbols(br.outcome)
        acc[syms] = acc.get(syms, 0) + int(br.frequency * shots)
    return list(acc.items())


OWN_CLASSES = {"C03": ("accounting", "chain-rule", "event", "end event", "invariant"),
               "C12": ("frame", "event", "end event", "invariant"),
               "C13": ("event", "end event", "invariant")}


def validate_traces(ctx, pid, traces, label, wtol=3):
    if not traces:
        return 0
    results, st = ET.validate(traces, wtol=wtol)
    ctx.cov["states"] += st["states"]
    ctx.cov["transitions"] += st["transitions"]
    ok = 0
    outside = 0
    for t, r in zip(traces, results):
        if r is None:
            ok += 1
        elif r[0] == "outside":
            outside += 1
        else:
            why = ET.explain(t, r)
            cls = why.split(":")[0]
            if not any(cls.startswith(c) for c in OWN_CLASSES.get(pid, ())) and not why.startswith("("):
                other = ctx.notes.setdefault("rejections_belonging_to_other_properties", {})
                other[cls] = other.get(cls, 0) + 1
                continue
            sim = t["meta"].get("sim", "?")
            prog = [p.get("cls", "?") for p in t["events"][0].get("prog", [])]
            ctx.report(f"{pid}:trace:{label}:{cls}:{_sig(t, r, why)}", f"[{label}/{sim}] trace rejected: {why}; program {prog}",
                       {"trace": t, "verdict": str(r)})
    ctx.validated(ok)
    ctx.notes.setdefault("traces", {})[label] = {"recorded": len(traces), "accepted": ok, "outside_model": outside}
    return ok


def _sig(t, r, why):
    """stable signature of a rejection (used as known-finding key)"""
    ev = r[2] if r[0] == "rejected" else None
    if ev and ev.get("e") == "end":
        if why.startswith("frame: instruction modes"):
            return f"modes-not-restored:{ev['status']}"
        if why.startswith("frame: parameters"):
            return f"params-left-resolved:{ev['status']}"
        if why.startswith("accounting: sum(get_counts"):
            return "get_counts-sum:" + t["meta"].get("sim", "?")
        if why.startswith("accounting: len(samples"):
            return "samples-len:" + t["meta"].get("sim", "?")
        return f"end:{ev['status']}:{ev['exc']}"
    if why.startswith("chain-rule: ") and "share one state object" in why:
        return "aliased-branch-states:" + t["meta"].get("sim", "?") + ":" + why.split()[1]
    if why.startswith("chain-rule: ") and "not normalised projections" in why:
        return "unnormalised-branch-state:" + t["meta"].get("sim", "?") + ":" + why.split()[1]
    if why.startswith("chain-rule: "):
        return "weights-vs-norm:" + t["meta"].get("sim", "?") + ":" + why.split()[1]
    return f"{(ev or {}).get('e', r[0])}"
