"""C16 — relabelling modes relabels the result; disjoint gates commute.

TLC proves on PqOptics.tla (exact arithmetic) that running the Perm-relabelled program on the relabelled input gives
the relabelled state (RelabelEquivariant, a product construction: both programs are evolved side by side) for every
permutation of 3 modes, and that any two catalogue gates on disjoint mode sets commute exactly (CommuteDisjoint).
Since C01 compares every simulator with the spec on every ORDERED mode tuple, the property transfers; it is also checked
directly: each exported gate sequence is run on every simulator together with its relabelled version (states compared
under the induced basis permutation, measurement outcomes permuted) and with adjacent disjoint gates exchanged.
"""
import itertools
import random
import warnings

import numpy as np

from ..common import run_tlc, MachineryError
from .. import lattice as L
from .. import optics_replay as OR

CFG = """SPECIFICATION Spec
CONSTANTS
  D = %d
  Inputs <- InDef
  Gates <- GDef
  Losses <- LDef
  MeasSets <- MDef
  Perm <- PDef
  CommuteDepth = %d
  MaxDepth = %d
  Measure = FALSE
  Export = %s
INVARIANT NormIsOne
INVARIANT RelabelEquivariant
INVARIANT CommuteDisjoint
INVARIANT ExportState
"""


def relabel_state_vector(sv, d, cutoff, perm):
    """amplitudes of the relabelled state: (pi.psi)(pi.v) = psi(v)"""
    from piquasso._math.fock import get_fock_space_basis
    from piquasso._math.indices import get_index_in_fock_space
    basis = get_fock_space_basis(d=d, cutoff=cutoff)
    out = np.zeros_like(sv)
    for i, b in enumerate(basis):
        w = [0] * d
        for m in range(d):
            w[perm[m]] = int(b[m])
        out[int(get_index_in_fock_space(tuple(w)))] = sv[i]
    return out


def run(ctx):
    import piquasso as pq
    quick = ctx.tier == "quick"
    rng = random.Random(ctx.seed)
    d = 3
    gates = L.passive_catalogue(d, rng=rng, size=8 if quick else 14)
    inputs = L.inputs(d, 3, rng=rng, size=3)
    perms = [p for p in itertools.permutations(range(d)) if p != tuple(range(d))]
    behs = None
    for k, perm in enumerate(perms if not quick else perms[:3]):
        mod = OR.spec_module("MCPO", d, gates, inputs, perm=perm)
        res = run_tlc("MCPO", "MCPO.cfg", generated={"MCPO.tla": mod, "MCPO.cfg": CFG % (d, 2 if k == 0 else 0, 2, "TRUE" if k == 0 else "FALSE")}, timeout=3000)
        if res.violated:
            ctx.report("spec:PqOptics:" + ",".join(map(str, res.violated)) + f":perm={perm}", f"PqOptics violates {res.violated} for the relabelling {perm}", res.out[-2000:])
            return
        if "Error:" in res.out:
            raise MachineryError("PqOptics (C16) failed:\n" + "\n".join(l for l in res.out.splitlines() if not l.startswith('<<"OPT"'))[-2500:])
        ctx.add_tlc(res)
        if k == 0:
            behs = res.records("OPT")
    ctx.notes["spec_theorems"] = {"RelabelEquivariant": f"{len(perms if not quick else perms[:3])} permutations of {d} modes, all gate sequences of length <= 2 over {len(gates)} gates",
                                  "CommuteDisjoint": "every disjoint pair of catalogue gates on every state of depth <= 1"}
    # ---- direct replay on the simulators
    from piquasso._math.fock import get_fock_space_basis
    seen = set()
    n_rel = n_comm = 0
    for rec in behs or []:
        inp, idx, amps = OR.parse_terms(rec)
        if not idx or (inp, tuple(idx)) in seen:
            continue
        seen.add((inp, tuple(idx)))
        n = sum(inp)
        names = [gates[i]["name"] + str(gates[i]["modes"]) for i in idx]
        passive_only = all(gates[i]["passive"] for i in idx)
        with warnings.catch_warnings():
            warnings.simplefilter("ignore")
            def run_on(simname, inp_, glist):
                if simname == "PureFock":
                    ins = [pq.NumberState(inp_).on_modes(*range(d))] + [g["mk"](pq).on_modes(*m) for g, m in glist]
                    st = pq.PureFockSimulator(d=d, config=pq.Config(cutoff=n + 1)).execute(pq.Program(instructions=ins)).state
                    return np.asarray(st.state_vector)
                if simname == "Fock":
                    ins = [pq.DensityMatrix(ket=inp_, bra=inp_).on_modes(*range(d))] + [g["mk"](pq).on_modes(*m) for g, m in glist]
                    st = pq.FockSimulator(d=d, config=pq.Config(cutoff=n + 1)).execute(pq.Program(instructions=ins)).state
                    return np.asarray(st.fock_probabilities)
                if simname == "Passive":
                    ins = [pq.NumberState(inp_).on_modes(*range(d))] + [g["mk"](pq).on_modes(*m) for g, m in glist]
                    st = pq.PassiveSimulator(d=d, config=pq.Config(cutoff=n + 1)).execute(pq.Program(instructions=ins)).state
                    return np.asarray(st.fock_probabilities)
            for perm in (perms if not quick else perms[::2]):
                pinp = [0] * d
                for m in range(d):
                    pinp[perm[m]] = inp[m]
                base = [(gates[i], gates[i]["modes"]) for i in idx]
                rel = [(gates[i], tuple(perm[m] for m in gates[i]["modes"])) for i in idx]
                for simname in ("PureFock", "Fock") + (("Passive",) if passive_only else ()):
                    a = run_on(simname, inp, base)
                    b = run_on(simname, tuple(pinp), rel)
                    ctx.case(("relabel", simname, inp, tuple(names), perm))
                    n_rel += 1
                    if np.abs(relabel_state_vector(a, d, n + 1, perm) - b).max() > 1e-9:
                        ctx.report(f"C16:relabel:{simname}:{'/'.join(x.split('(')[0] for x in names)}",
                                   f"{simname}: relabelling the modes by {perm} does not relabel the result for {names} on input {inp}",
                                   {"sim": simname, "perm": perm, "gates": names, "input": inp})
            # exchange adjacent disjoint gates
            for k in range(len(idx) - 1):
                g1, g2 = gates[idx[k]], gates[idx[k + 1]]
                if set(g1["modes"]) & set(g2["modes"]):
                    continue
                base = [(gates[i], gates[i]["modes"]) for i in idx]
                swp = list(base)
                swp[k], swp[k + 1] = swp[k + 1], swp[k]
                for simname in ("PureFock", "Fock") + (("Passive",) if passive_only else ()):
                    a, b = run_on(simname, inp, base), run_on(simname, inp, swp)
                    ctx.case(("commute", simname, inp, tuple(names), k))
                    n_comm += 1
                    if np.abs(a - b).max() > 1e-9:
                        ctx.report(f"C16:commute:{simname}:{g1['name'].split('(')[0]}/{g2['name'].split('(')[0]}",
                                   f"{simname}: exchanging the disjoint gates {names[k]} and {names[k + 1]} changes the result on input {inp}",
                                   {"sim": simname, "gates": names, "input": inp, "swap": k})
        ctx.validated()
    ctx.notes["direct_replays"] = {"relabelled_pairs": n_rel, "commuted_pairs": n_comm}
    ctx.tick("optics")
    # Gaussian measurements of ORDERED mode tuples: PqDyne proves that the conditional state does not depend on the order in which the
    # measured modes are listed; the replay checks sampling law, outcome order and conditional state for ascending and non-ascending tuples
    from . import c02
    c02.part_dyne_spec(ctx, pq, quick, random.Random(ctx.seed + 16), pid="C16")
    ctx.tick("dyne_order")
    # the order in which post-selected modes are listed does not matter (exact law of the sampler, both spellings)
    c02.part_postselect_order(ctx, pq, quick, random.Random(ctx.seed + 17), pid="C16")
    ctx.tick("postselect_order")
    ctx.sample({"permutation": perms[0], "gates": [g["name"] + str(g["modes"]) for g in gates[:4]]})
    ctx.assumptions += ["Gaussian and fermionic simulators: relabelling is covered by the ordered-mode-tuple replays of C07 / C17 when those checks are present"]
