"""C11 — seeded runs are reproducible and independent of parallel scheduling.

spec/PqRng.tla: ownership of random streams; TLC checks Reproducible / NoDrawUsedTwice / OwnStreamsOnly over every
interleaving of foreign activity (global draws, re-seeding, unrelated Configs) with create/execute of two simulators.
Binding: (a) which stream each sampler really draws from is observed (random.*, Config.rng proxy, default_rng seeds)
and must be one the specification allows; (b) every interleaving TLC generated is replayed on the real objects for
every sampling family, dask on/off; two fresh simulators with the same seed must return identical samples;
different seeds must give different sequences.  spec/GrayPermanent.tla: CoverExactlyOnce / ResultIsPermanent for every
value of hardware_concurrency() 0..16, replayed through the C++ built from /repo/src; OMP / numba thread counts in fresh
processes.
"""
import json
import os
import random
import re
import subprocess
import sys
import warnings

import numpy as np

from ..common import run_tlc, tlc_ok, MachineryError, SPEC, VERIF, tla_seq
from .. import native as NV


def families(pq):
    from scipy.stats import unitary_group
    U4 = unitary_group.rvs(4, random_state=11)

    def purefock(cfg):
        return pq.PureFockSimulator(d=3, config=cfg), [pq.NumberState([1, 1, 0]).on_modes(0, 1, 2), pq.Beamsplitter(theta=0.7).on_modes(0, 1),
                                                       pq.Beamsplitter(theta=0.4).on_modes(1, 2), pq.ParticleNumberMeasurement()]

    def purefock_mid(cfg):
        return pq.PureFockSimulator(d=3, config=cfg), [pq.NumberState([1, 1, 0]).on_modes(0, 1, 2), pq.Beamsplitter(theta=0.7).on_modes(0, 1),
                                                       pq.ParticleNumberMeasurement().on_modes(0), pq.Beamsplitter(theta=0.4).on_modes(1, 2),
                                                       pq.ParticleNumberMeasurement().on_modes(1, 2)]

    def fock(cfg):
        return pq.FockSimulator(d=2, config=cfg), [pq.Vacuum(), pq.Displacement(r=0.8).on_modes(0), pq.Beamsplitter(theta=0.6).on_modes(0, 1),
                                                   pq.ParticleNumberMeasurement()]

    def purefock_homodyne(cfg):
        return pq.PureFockSimulator(d=2, config=cfg), [pq.Vacuum(), pq.Displacement(r=0.5).on_modes(0), pq.HomodyneMeasurement().on_modes(0)]

    def gaussian_pnm(cfg):
        return pq.GaussianSimulator(d=3, config=cfg), [pq.Vacuum()] + [pq.Squeezing(r=0.6).on_modes(m) for m in range(3)] + [
            pq.Beamsplitter(theta=0.7).on_modes(0, 1), pq.Beamsplitter(theta=0.5).on_modes(1, 2), pq.ParticleNumberMeasurement()]

    def gaussian_thr(cfg):
        return pq.GaussianSimulator(d=3, config=cfg), [pq.Vacuum()] + [pq.Squeezing(r=0.6).on_modes(m) for m in range(3)] + [
            pq.Beamsplitter(theta=0.7).on_modes(0, 1), pq.ThresholdMeasurement()]

    def gaussian_hom(cfg):
        return pq.GaussianSimulator(d=2, config=cfg), [pq.Vacuum(), pq.Squeezing(r=0.4).on_modes(0), pq.Beamsplitter(theta=0.7).on_modes(0, 1),
                                                       pq.HomodyneMeasurement().on_modes(0), pq.HeterodyneMeasurement().on_modes(1)]

    def sampling(cfg):
        return pq.SamplingSimulator(d=4, config=cfg), [pq.NumberState([1, 1, 1, 0]).on_modes(0, 1, 2, 3), pq.Interferometer(U4).on_modes(0, 1, 2, 3),
                                                       pq.ParticleNumberMeasurement()]

    def sampling_lossy(cfg):
        return pq.SamplingSimulator(d=4, config=cfg), [pq.NumberState([1, 1, 1, 0]).on_modes(0, 1, 2, 3), pq.Interferometer(U4).on_modes(0, 1, 2, 3),
                                                       pq.Loss(transmissivity=0.8).on_modes(0), pq.ParticleNumberMeasurement()]

    def sampling_marginal(cfg):
        return pq.SamplingSimulator(d=4, config=cfg), [pq.NumberState([1, 1, 1, 0]).on_modes(0, 1, 2, 3), pq.Interferometer(U4).on_modes(0, 1, 2, 3),
                                                       pq.ParticleNumberMeasurement().on_modes(0, 1)]

    def ffock(cfg):
        return pq.fermionic.PureFockSimulator(d=3, config=cfg), [pq.NumberState([1, 0, 1]).on_modes(0, 1, 2), pq.Beamsplitter(theta=0.7).on_modes(0, 1),
                                                                 pq.Beamsplitter(theta=0.5).on_modes(1, 2), pq.ParticleNumberMeasurement()]

    def fgauss(cfg):
        return pq.fermionic.GaussianSimulator(d=3, config=cfg), [pq.NumberState([1, 0, 1]).on_modes(0, 1, 2), pq.Beamsplitter(theta=0.7).on_modes(0, 1),
                                                                 pq.Beamsplitter(theta=0.5).on_modes(1, 2), pq.ParticleNumberMeasurement()]
    return {"PureFock.PNM": purefock, "PureFock.PNM.midcircuit": purefock_mid, "Fock.PNM": fock, "PureFock.Homodyne": purefock_homodyne,
            "Gaussian.PNM": gaussian_pnm, "Gaussian.Threshold": gaussian_thr, "Gaussian.Homodyne+Heterodyne": gaussian_hom,
            "Sampling.PNM": sampling, "Sampling.lossy": sampling_lossy, "Sampling.marginal": sampling_marginal,
            "FermionicFock.PNM": ffock, "FermionicGaussian.PNM": fgauss}


class StreamSpy:
    """observes which random stream a sampler consumes"""

    def __init__(self):
        self.used = set()
        self._undo = []

    def __enter__(self):
        spy = self
        for name in ("choices", "random", "choice", "shuffle", "uniform", "gauss", "randint", "sample", "randrange", "normalvariate"):
            old = getattr(random, name)

            def wrap(*a, _old=old, _name=name, **k):
                spy.used.add("global")
                return _old(*a, **k)
            setattr(random, name, wrap)
            self._undo.append((random, name, old))
        old_rng = np.random.default_rng

        def default_rng(seed=None):
            spy.used.add("pershot" if seed is not None else "unseeded")
            return old_rng(seed)
        np.random.default_rng = default_rng
        self._undo.append((np.random, "default_rng", old_rng))
        for name in ("seed", "rand", "randn", "normal", "choice", "multivariate_normal", "random", "uniform"):
            old = getattr(np.random, name)

            def wrapnp(*a, _old=old, **k):
                spy.used.add("numpy-global")
                return _old(*a, **k)
            setattr(np.random, name, wrapnp)
            self._undo.append((np.random, name, old))
        return self

    def __exit__(self, *a):
        for obj, name, old in reversed(self._undo):
            setattr(obj, name, old)


class RngProxy:
    def __init__(self, rng, spy):
        self._rng, self._spy = rng, spy

    def __deepcopy__(self, memo):
        return self

    def __getattr__(self, name):
        if name.startswith("__"):
            raise AttributeError(name)
        self._spy.used.add("cfgrng")
        return getattr(self._rng, name)


def samples_of(result):
    return [tuple(float(x) for x in s) for s in result.samples]


def run(ctx):
    import piquasso as pq
    quick = ctx.tier == "quick"
    cfg_text = (SPEC / "PqRng.cfg").read_text()
    # ---- the intended design satisfies the properties for every interleaving
    res = run_tlc("PqRng", "MC.cfg", generated={"MC.cfg": cfg_text.replace("MaxOther = 3", "MaxOther = %d" % (3 if quick else 4))}, timeout=1200)
    if not tlc_ok(res, "PqRng"):
        ctx.report("spec:PqRng:" + ",".join(map(str, res.violated)), "PqRng (intended stream ownership) violates its properties", res.out[-2000:])
        return
    ctx.add_tlc(res)
    # ---- a sampler that draws from the process-global generator cannot be reproducible (model level)
    resg = run_tlc("PqRng", "MC.cfg", generated={"MC.cfg": cfg_text.replace('Kinds = {"cfgrng", "pershot"}', 'Kinds = {"global"}')}, timeout=1200)
    ctx.add_tlc(resg)
    ctx.notes["model_global_sampler_violates"] = resg.violated
    # ---- behaviours for the replay
    rexp = run_tlc("PqRng", "MC.cfg", generated={"MC.cfg": cfg_text.replace("Export = FALSE", "Export = TRUE").replace("INVARIANT OwnStreamsOnly", "INVARIANT OwnStreamsOnly\nINVARIANT ExportEnd")
                                                 .replace("Shots = {1, 3}", "Shots = {4}").replace('Kinds = {"cfgrng", "pershot"}', 'Kinds = {"pershot"}')}, timeout=1200)
    if not tlc_ok(rexp, "PqRng export"):
        raise MachineryError("PqRng export failed")
    ctx.add_tlc(rexp)
    behs = rexp.records("RNG")
    rng = random.Random(ctx.seed)
    rng.shuffle(behs)
    behs = behs[: (10 if quick else 60)]
    fams = families(pq)
    seed_user = 100
    for fname, mk in fams.items():
        with warnings.catch_warnings():
            warnings.simplefilter("ignore")
            # -- which streams does this sampler consume?
            spy = StreamSpy()
            try:
                cfg = pq.Config(seed_sequence=seed_user, cutoff=5)
                sim, ins = mk(cfg)
                sim.config.rng = RngProxy(sim.config.rng, spy)
                with spy:
                    r = sim.execute(pq.Program(instructions=ins), shots=6)
                    _ = r.branches
            except Exception as e:  # noqa
                ctx.notes.setdefault("family_errors", {})[fname] = f"{type(e).__name__}: {str(e)[:100]}"
                continue
            used = sorted(spy.used)
            ctx.notes.setdefault("streams_used", {})[fname] = used
            ctx.case(("streams", fname))
            for bad in set(used) & {"global", "numpy-global", "unseeded"}:
                ctx.report(f"C11:stream:{bad}:{fname}", f"the sampler of {fname} draws from the {bad} random generator (not a stream owned by the simulation): "
                           "results depend on whatever else the process did", {"family": fname, "streams": used})
            # -- replay of the interleavings
            for b in behs:
                outs = {}
                err = None
                sim = cfg = None
                try:
                    for h in b["hist"]:
                        a = h["a"]
                        if a == "NewConfig":
                            cfg = pq.Config(seed_sequence=seed_user, cutoff=5)
                        elif a == "NewConfigUnseeded":
                            cfg = pq.Config(cutoff=5)
                        elif a == "SetSeed":
                            cfg.seed_sequence = seed_user
                        elif a == "NewSim":
                            sim, ins = mk(cfg)
                        elif a == "GlobalDraw":
                            random.random()
                            np.random.rand()
                        elif a == "GlobalSeed":
                            random.seed(h["seed"])
                            np.random.seed(h["seed"])
                        elif a == "OtherConfig":
                            pq.Config(seed_sequence=h["seed"])
                        elif a == "Exec":
                            outs[h["run"]] = samples_of(sim.execute(pq.Program(instructions=ins), shots=b["shots"]))
                except Exception as e:  # noqa
                    err = e
                ctx.case(("replay", fname, json.dumps(b["hist"])))
                if err is not None:
                    ctx.report(f"C11:replay-raises:{fname}", f"replay on {fname} raised {type(err).__name__}: {str(err)[:100]}", {"family": fname, "hist": b["hist"]})
                    break
                ctx.validated()
                if outs.get(1) != outs.get(2):
                    kind = "global-random" if "global" in used else "other"
                    ctx.report(f"C11:reproducible:{kind}:{fname}",
                               f"two fresh {fname} simulators with seed {seed_user} returned different samples ({outs.get(1)[:3]} vs {outs.get(2)[:3]}) "
                               f"after foreign activity {[h['a'] for h in b['hist'] if h['a'] in ('GlobalDraw', 'GlobalSeed', 'OtherConfig')]}",
                               {"family": fname, "hist": b["hist"], "shots": b["shots"]})
                    break
            # -- different seeds give different sequences; dask on/off gives the same
            try:
                s = {}
                for sd in (100, 101, 102):
                    cfg = pq.Config(seed_sequence=sd, cutoff=5)
                    sim, ins = mk(cfg)
                    s[sd] = samples_of(sim.execute(pq.Program(instructions=ins), shots=24))
                ctx.case(("seeds", fname))
                if s[100] == s[101] == s[102]:
                    ctx.report(f"C11:seed-ignored:{fname}", f"{fname}: seeds 100, 101, 102 give the same 24 samples", {"family": fname})
                if fname.startswith(("Gaussian.PNM", "Gaussian.Threshold", "Sampling.PNM", "Sampling.lossy")):
                    cfg = pq.Config(seed_sequence=100, cutoff=5, use_dask=True)
                    sim, ins = mk(cfg)
                    sd = samples_of(sim.execute(pq.Program(instructions=ins), shots=24))
                    ctx.case(("dask", fname))
                    if sd != s[100]:
                        ctx.report(f"C11:dask:{fname}", f"{fname}: use_dask=True changes the samples for the same seed", {"family": fname})
            except Exception as e:  # noqa
                ctx.notes.setdefault("family_errors", {})[fname + ":seeds"] = f"{type(e).__name__}: {str(e)[:100]}"
    if behs:
        ctx.sample({"interleaving": [h["a"] for h in behs[0]["hist"]], "shots": behs[0]["shots"]})
    # ---- native kernels: every job partition of the permanent (every value of hardware_concurrency)
    NV.lib(rebuild=True)
    insts = [{"A": [[1, 1j, 1 + 1j], [2, -1, -1j], [1 - 1j, 0, 1]], "rows": [2, 1, 2], "cols": [1, 3, 1]},
             {"A": [[1, 2], [1j, 1]], "rows": [3, 3], "cols": [2, 4]},
             {"A": [[1, 1, 0], [0, 1, 1], [1, 0, 1]], "rows": [1, 4, 1], "cols": [2, 2, 2]}]
    from .c04 import tla_mat
    idef = "<< " + ", ".join(f"[A |-> {tla_mat(i['A'])}, rows |-> {tla_seq(i['rows'])}, cols |-> {tla_seq(i['cols'])}]" for i in insts) + " >>"
    mc = f"---- MODULE MCGP ----\nEXTENDS GrayPermanent\nIDef == {idef}\nKDef == 0..16\n====\n"
    cfgp = ("SPECIFICATION Spec\nCONSTANTS\n  Instances <- IDef\n  KSet <- KDef\n  IntMax = 2147483647\n  Arith = TRUE\n  Export = TRUE\n"
            "INVARIANT NoRevisit\nINVARIANT CoverExactlyOnce\nINVARIANT ResultIsPermanent\nINVARIANT GrayIsReflected\nINVARIANT ExportEnd\n")
    rp = run_tlc("MCGP", "MCGP.cfg", generated={"MCGP.tla": mc, "MCGP.cfg": cfgp}, timeout=1500)
    if rp.violated:
        m = re.search(r"/\\ K = (\d+)", rp.out)
        ctx.report("spec:GrayPermanent:" + ",".join(map(str, rp.violated)) + (f":K={m.group(1)}" if m else ""),
                   f"job partition of permanent_cpp violates {rp.violated} for hardware_concurrency = {m.group(1) if m else '?'}", rp.out[-2000:])
    elif not tlc_ok(rp, "GrayPermanent"):
        return
    ctx.add_tlc(rp)
    vals = {}
    for r in rp.records("PERM"):
        inst = insts[r["inst"] - 1]
        NV.set_concurrency(r["K"])
        got = NV.permanent(np.array(inst["A"], dtype=complex), inst["rows"], inst["cols"])
        exp = complex(*r["perm"])
        ctx.case(("perm-K", r["inst"], r["K"]))
        ctx.validated()
        vals.setdefault(r["inst"], set()).add(got)
        if abs(got - exp) > 1e-9 * max(1, abs(exp)):
            ctx.report(f"C11:permanent-partition:K={r['K']}", f"permanent_cpp with hardware_concurrency={r['K']} gives {got}, exact {exp} (rows={inst['rows']}, cols={inst['cols']})",
                       {"inst": str(inst), "K": r["K"]})
    NV.set_concurrency(None)
    # ---- thread counts in fresh processes: deterministic quantities must not depend on them
    script = r'''
import sys, json, numpy as np
sys.path.insert(0, "/verif")
import piquasso as pq
from piquasso._math.hafnian import hafnian_with_reduction, loop_hafnian_with_reduction
from piquasso._math.permanent import permanent
rng = np.random.default_rng(5)
A = rng.normal(size=(6, 6)) + 1j * rng.normal(size=(6, 6)); S = A + A.T
out = {}
out["haf"] = complex(hafnian_with_reduction(S, np.array([1, 2, 1, 0, 1, 1]))).__repr__()
out["lhaf"] = complex(loop_hafnian_with_reduction(S, np.diag(S).copy(), np.array([1, 2, 1, 0, 1, 2]))).__repr__()
out["perm"] = complex(permanent(A[:4, :4].copy(), np.array([2, 1, 2, 1], dtype=np.int32), np.array([1, 2, 2, 1], dtype=np.int32))).__repr__()
with pq.Program() as p:
    pq.Q(0, 1, 2) | pq.NumberState([1, 1, 1])
    pq.Q(0, 1) | pq.Beamsplitter(theta=0.7, phi=0.3)
    pq.Q(1, 2) | pq.Beamsplitter(theta=0.4, phi=0.1)
st = pq.PureFockSimulator(d=3, config=pq.Config(cutoff=4)).execute(p).state
out["purefock"] = [float(x).hex() for x in st.fock_probabilities]
with pq.Program() as g:
    pq.Q() | pq.Vacuum()
    pq.Q(0) | pq.Squeezing(r=0.5)
    pq.Q(0, 1) | pq.Beamsplitter(theta=0.7)
gs = pq.GaussianSimulator(d=2, config=pq.Config(cutoff=5)).execute(g).state
out["gaussian"] = [round(float(x), 13) for x in gs.fock_probabilities]
print("OUT" + json.dumps(out))
'''
    outs = {}
    for env_threads in ([("1", "1"), ("3", "2"), ("16", "16")] if not quick else [("1", "1"), ("16", "5")]):
        env = dict(os.environ, NUMBA_NUM_THREADS=env_threads[0], OMP_NUM_THREADS=env_threads[1])
        p = subprocess.run([sys.executable, "-c", script], capture_output=True, text=True, env=env, timeout=1200)
        m = re.search(r"^OUT(.*)$", p.stdout, flags=re.M)
        if not m:
            raise MachineryError("thread-count subprocess failed:\n" + p.stderr[-1500:])
        outs[env_threads] = json.loads(m.group(1))
        ctx.case(("threads",) + env_threads)
    ref_key = list(outs)[0]
    for k, o in outs.items():
        for q in ("perm", "purefock"):
            if o[q] != outs[ref_key][q]:
                ctx.report(f"C11:threads:{q}", f"{q} differs between NUMBA/OMP thread counts {ref_key} and {k}", {"ref": outs[ref_key][q], "other": o[q]})
        for q in ("haf", "lhaf"):
            a, b = complex(o[q]), complex(outs[ref_key][q])
            if abs(a - b) > 1e-10 * max(1, abs(b)):
                ctx.report(f"C11:threads:{q}", f"{q} differs between thread counts {ref_key} and {k}: {a} vs {b}", {})
        if o["gaussian"] != outs[ref_key]["gaussian"]:
            ctx.report("C11:threads:gaussian", f"Gaussian Fock probabilities differ between thread counts {ref_key} and {k}", {})
    ctx.sample({"thread_settings": [list(k) for k in outs], "quantities": ["hafnian", "loop hafnian", "permanent", "PureFock probabilities", "Gaussian probabilities"]})
    ctx.assumptions += ["numpy Generator / random.Random are trusted to be deterministic functions of (seed, position)"]
