"""C04 — matrix-function kernels equal their combinatorial definitions.

spec/MatrixFunctions.tla: the definitions (sum over permutations / matchings / subsets) over Gaussian integers;
spec/GrayPermanent.tla: state machine of permanent_cpp + the Gray-code counter (invariants: reflected code, binomial
product, cover-exactly-once for every job partition, result = 2^(N-1) * PermDef, `int` range);
spec/MatrixEval.tla + BigNat.tla: exact values for harness-supplied instances, closed forms for high multiplicities,
the int64 range theorem.  Replay: the C++ built from /repo/src (float and double, every forced concurrency), the real
Gray-code class stepped along the TLC behaviour, the prebuilt Python entry points, the numba / JAX hafnians, the
connector functions; the same corpus under an ASan+UBSan build.
"""
import itertools
import math
import os
import random
import re
import subprocess
import json

import numpy as np

from ..common import run_tlc, tlc_ok, MachineryError, tla_seq, SPEC, VERIF
from .. import native as NV


def cval(z):
    return [int(round(z.real)), int(round(z.imag))]


def gen_instances(rng, n, maxdim=3, maxtotal=5):
    ents = [0, 1, -1, 1j, -1j, 1 + 1j, 1 - 1j, 2]
    out = []
    while len(out) < n:
        r = rng.randint(1, maxdim)
        c = rng.randint(1, maxdim)
        A = [[rng.choice(ents) for _ in range(c)] for _ in range(r)]
        tot = rng.randint(0, maxtotal)

        def split(t, k):
            v = [0] * k
            for _ in range(t):
                v[rng.randrange(k)] += 1
            return v
        rows, cols = split(tot, r), split(tot, c)
        lcols = list(cols)
        lcols[rng.randrange(c)] += 1
        out.append({"A": A, "rows": rows, "cols": cols, "lcols": lcols})
    return out


def tla_c(z):
    return f"<<{int(z.real)}, {int(z.imag)}>>"


def tla_mat(A):
    return "<<" + ", ".join("<<" + ", ".join(tla_c(complex(x)) for x in row) + ">>" for row in A) + ">>"


def tla_int_mat(A):
    return "<<" + ", ".join("<<" + ", ".join(str(int(x)) for x in row) + ">>" for row in A) + ">>"


def close(a, b, rel, what=""):
    return abs(a - b) <= rel * max(1.0, abs(b))


def run(ctx):
    quick = ctx.tier == "quick"
    rng = random.Random(ctx.seed)
    NV.lib(rebuild=True)
    insts = gen_instances(rng, 24 if quick else 120)
    fixed = [{"A": [[1, 1], [1, 1]], "rows": [2, 2], "cols": [3, 1], "lcols": [3, 2]},
             {"A": [[1, 1j, 1 + 1j], [2, -1, -1j], [1 - 1j, 0, 1]], "rows": [2, 1, 2], "cols": [1, 3, 1], "lcols": [2, 3, 1]},
             {"A": [[2]], "rows": [4], "cols": [4], "lcols": [5]},
             {"A": [[1, 2], [3, 4]], "rows": [0, 0], "cols": [0, 0], "lcols": [1, 0]},
             {"A": [[1, 2, 0], [3, 4, 1]], "rows": [3, 0], "cols": [1, 1, 1], "lcols": [1, 2, 1]}]
    insts = fixed + insts
    # ------------------------------------------------------------------ GrayPermanent: algorithm level, exhaustive per instance
    gp_insts = [i for i in insts if sum(i["rows"]) == sum(i["cols"])]
    idef = "<< " + ",\n ".join(f"[A |-> {tla_mat(i['A'])}, rows |-> {tla_seq(i['rows'])}, cols |-> {tla_seq(i['cols'])}]" for i in gp_insts) + " >>"
    kmax = 6 if quick else 16
    mc = f"---- MODULE MCGP ----\nEXTENDS GrayPermanent\nIDef == {idef}\nKDef == 0..{kmax}\n====\n"
    cfg = """SPECIFICATION Spec
CONSTANTS
  Instances <- IDef
  KSet <- KDef
  IntMax = 2147483647
  Arith = TRUE
  Export = TRUE
INVARIANT GrayIsReflected
INVARIANT EveryStepChangesADigit
INVARIANT DigitsInRange
INVARIANT BinomIsProduct
INVARIANT ParityIsSum
INVARIANT NoRevisit
INVARIANT CoverExactlyOnce
INVARIANT IntFits
INVARIANT ResultIsPermanent
INVARIANT ExportEnd
INVARIANT ExportJob
INVARIANT ExportStep
"""
    res = run_tlc("MCGP", "MCGP.cfg", generated={"MCGP.tla": mc, "MCGP.cfg": cfg}, timeout=3000)
    if res.violated:
        m = re.search(r"/\\ K = (\d+)", res.out)
        ctx.report("spec:GrayPermanent:" + ",".join(map(str, res.violated)) + (f":K={m.group(1)}" if m else ""),
                   f"the state machine of permanent_cpp violates {res.violated} (K = hardware_concurrency = {m.group(1) if m else '?'})", res.out[-2500:])
    elif not tlc_ok(res, "GrayPermanent"):
        return
    ctx.add_tlc(res)
    perms = {(r["inst"], r["K"]): r for r in res.records("PERM")}
    jobs = res.records("JOB")
    grays = {}
    for g in res.records("GRAY"):
        grays.setdefault((g["inst"], g["K"], g["job"]), {})[g["offset"]] = g
    # ---- replay 1: the real Gray-code counter class stepped along the behaviour
    nwalk = 0
    for j in jobs:
        key = (j["inst"], j["K"], j["job"])
        seq = grays.get(key, {})
        codes, ch, pv, vl = NV.gray_walk(j["limits"], j["init"], j["offmax"])
        ctx.case(("gray", tuple(j["limits"]), j["init"], j["offmax"]))
        exp = [seq[o]["gray"] for o in sorted(seq)]
        if len(exp) != j["offmax"] - j["init"] + 1:
            continue            # export incomplete (TLC stopped at a violation reported above)
        if codes.tolist() != exp:
            ctx.report(f"gray-walk:{j['limits']}:{j['init']}:{j['offmax']}", f"n_aryGrayCodeCounter walk differs from the specification for limits {j['limits']} offsets {j['init']}..{j['offmax']}",
                       {"limits": j["limits"], "init": j["init"], "offmax": j["offmax"], "code": codes.tolist()[:20], "spec": exp[:20]})
        else:
            for k, o in enumerate(sorted(seq)):
                if k > 0 and [int(ch[k]) + 1, int(pv[k]), int(vl[k])] != seq[o]["ch"]:
                    ctx.report(f"gray-change:{j['limits']}", f"changed digit / values reported by next() differ at offset {o}", {"job": j})
                    break
        nwalk += 1
        ctx.validated()
    ctx.notes["gray_walks_replayed"] = nwalk
    # ---- replay 2: permanent_cpp with every forced concurrency
    for (ii, K), r in perms.items():
        inst = gp_insts[ii - 1]
        exp = complex(*r["perm"])
        A = np.array(inst["A"], dtype=complex)
        NV.set_concurrency(K)
        for dt, tol in ((np.float64, 1e-9), (np.float32, 2e-4)):
            got = NV.permanent(A, inst["rows"], inst["cols"], dtype=dt)
            ctx.case(("perm", ii, K, dt.__name__))
            if not close(got, exp, tol):
                ctx.report(f"permanent_cpp:K={K}:{'f64' if dt == np.float64 else 'f32'}:{inst['rows']}:{inst['cols']}",
                           f"permanent_cpp<{dt.__name__}> with hardware_concurrency={K}: {got} != {exp} for rows={inst['rows']} cols={inst['cols']}",
                           {"A": [[str(x) for x in row] for row in inst["A"]], "rows": inst["rows"], "cols": inst["cols"], "K": K})
        ctx.validated()
    NV.set_concurrency(None)
    # ------------------------------------------------------------------ definitions evaluated by TLC on instances
    hinsts, pfinsts, torinsts = [], [], []
    for _ in range(16 if quick else 80):
        n = rng.randint(1, 3)
        M = [[0] * n for _ in range(n)]
        for a in range(n):
            for b in range(a, n):
                M[a][b] = M[b][a] = rng.choice([0, 1, -1, 1j, 1 + 1j, 2])
        reduce = [rng.randint(0, 2) for _ in range(n)]
        while sum(reduce) > 6:
            reduce[rng.randrange(n)] = 0
        hinsts.append({"A": M, "diag": [rng.choice([0, 1, -1, 1j]) for _ in range(n)], "reduce": reduce})
    for _ in range(10 if quick else 40):
        n = rng.choice([2, 4, 4, 6] if not quick else [2, 4, 4])
        K_ = [[0] * n for _ in range(n)]
        for a in range(n):
            for b in range(a + 1, n):
                K_[a][b] = rng.randint(-2, 2)
                K_[b][a] = -K_[a][b]
        pfinsts.append(K_)
    pfinsts += [[[0, 1, 2], [-1, 0, 3], [-2, -3, 0]], [[0, 0, 1, 0], [0, 0, 0, 1], [-1, 0, 0, 0], [0, -1, 0, 0]]]
    for _ in range(6 if quick else 30):
        n = rng.randint(1, 2 if quick else 3)
        den = 8
        # symmetric positive (2n x 2n) with spectrum well inside (0,1): diagonally dominant integers / den
        M = [[0] * (2 * n) for _ in range(2 * n)]
        for a in range(2 * n):
            for b in range(a + 1, 2 * n):
                M[a][b] = M[b][a] = rng.choice([0, 0, 1, -1])
            M[a][a] = rng.choice([2, 3])
        torinsts.append({"A": M, "n": n, "den": den})
    rankone = []
    for m in ([(10, 10), (17, 17), (18, 18), (20, 20), (13, 13, 13), (30, 5), (5, 30, 5)] if not quick else [(10, 10), (18, 18), (20, 20), (13, 13, 13)]):
        d = len(m)
        rankone.append({"u": [1] * d, "v": [1] * d, "rows": list(m), "cols": list(m)})
        rankone.append({"u": [1, 2, 1][:d], "v": [2, 1, 1][:d], "rows": list(m), "cols": list(reversed(m))})
    mc = ("---- MODULE MCME ----\nEXTENDS MatrixEval\n"
          "PermDefI == << " + ", ".join(f"[A |-> {tla_mat(i['A'])}, rows |-> {tla_seq(i['rows'])}, cols |-> {tla_seq(i['cols'])}, lcols |-> {tla_seq(i['lcols'])}]" for i in gp_insts) + " >>\n"
          "HafDefI == << " + ", ".join(f"[A |-> {tla_mat(i['A'])}, diag |-> <<{', '.join(tla_c(complex(x)) for x in i['diag'])}>>, reduce |-> {tla_seq(i['reduce'])}]" for i in hinsts) + " >>\n"
          "PfDefI == << " + ", ".join(tla_int_mat(k) for k in pfinsts) + " >>\n"
          "TorDefI == << " + ", ".join(f"[A |-> {tla_int_mat(t['A'])}, n |-> {t['n']}, den |-> {t['den']}]" for t in torinsts) + " >>\n"
          "RankOneDefI == << " + ", ".join(f"[u |-> {tla_seq(r['u'])}, v |-> {tla_seq(r['v'])}, rows |-> {tla_seq(r['rows'])}, cols |-> {tla_seq(r['cols'])}]" for r in rankone) + " >>\n====\n")
    cfg2 = ("SPECIFICATION Spec\nCONSTANTS\n PermI <- PermDefI\n HafI <- HafDefI\n PfI <- PfDefI\n TorI <- TorDefI\n RankOneI <- RankOneDefI\n MaxTotal = %d\n" % (24 if quick else 40))
    res2 = run_tlc("MCME", "MCME.cfg", generated={"MCME.tla": mc, "MCME.cfg": cfg2}, workers=1, timeout=3000)
    if not tlc_ok(res2, "MatrixEval"):
        raise MachineryError("MatrixEval failed")
    ctx.add_tlc(res2)
    m = re.search(r'<<"INT64RANGE", (TRUE|FALSE)>>', res2.out)
    ctx.notes["int64_range_theorem"] = {"max_total": 24 if quick else 40, "holds": bool(m and m.group(1) == "TRUE")}
    # Laplace vectors (native + connector)
    import piquasso as pq
    from piquasso._math.permanent import permanent as py_permanent, permanent_laplace as py_laplace
    conn = pq.NumpyConnector()
    for r in res2.records("PERMDEF"):
        inst = gp_insts[r["i"] - 1]
        A = np.array(inst["A"], dtype=complex)
        exp = complex(*r["perm"])
        rows = np.array(inst["rows"], dtype=np.int32)
        cols = np.array(inst["cols"], dtype=np.int32)
        ctx.case(("py-perm", r["i"]))
        for name, fn in (("piquasso._math.permanent.permanent", lambda: py_permanent(A, rows, cols)),
                         ("connector.permanent", lambda: conn.permanent(A, rows, cols)),
                         ("permanent<complex64>", lambda: py_permanent(A.astype(np.complex64), rows, cols)),
                         ("permanent(strided)", lambda: py_permanent(np.asfortranarray(A), rows, cols))):
            try:
                got = complex(fn())
            except Exception as e:  # noqa
                ctx.report(f"py-permanent-raises:{name}:{inst['rows']}:{inst['cols']}", f"{name} raised {type(e).__name__}: {e}", {"inst": str(inst)})
                continue
            if not close(got, exp, 2e-4 if "64>" in name else 1e-9):
                ctx.report(f"py-permanent:{name}:{inst['rows']}:{inst['cols']}", f"{name} = {got}, definition gives {exp} (rows={inst['rows']}, cols={inst['cols']})",
                           {"A": [[str(x) for x in row] for row in inst["A"]], "rows": inst["rows"], "cols": inst["cols"]})
        if len(inst["A"]) and sum(inst["rows"]) > 0 or True:
            lap = [complex(*z) for z in r["laplace"]]
            try:
                got = NV.permanent_laplace(A, inst["rows"], inst["lcols"])
                gotpy = [complex(z) for z in np.atleast_1d(py_laplace(A, rows, np.array(inst["lcols"], dtype=np.int32)))]
            except Exception as e:  # noqa
                ctx.report(f"laplace-raises:{inst['rows']}:{inst['lcols']}", f"permanent_laplace raised {type(e).__name__}", {"inst": str(inst)})
                continue
            if sum(inst["rows"]) > 0:
                for j, c in enumerate(inst["lcols"]):
                    if c > 0 and j < len(got) and (not close(got[j], lap[j], 1e-9) or (j < len(gotpy) and not close(gotpy[j], lap[j], 1e-9))):
                        ctx.report(f"laplace:{inst['rows']}:{inst['lcols']}:{j}", f"permanent_laplace entry {j}: native {got[j]} / python {gotpy[j] if j < len(gotpy) else None}, definition {lap[j]}",
                                   {"A": [[str(x) for x in row] for row in inst["A"]], "rows": inst["rows"], "lcols": inst["lcols"]})
                        break
        ctx.validated()
    # hafnians
    from piquasso._math.hafnian import hafnian_with_reduction, loop_hafnian_with_reduction
    try:
        from piquasso._math.hafnian import loop_hafnian_with_reduction_batch
    except Exception:  # noqa
        loop_hafnian_with_reduction_batch = None
    for r in res2.records("HAFDEF"):
        h = hinsts[r["i"] - 1]
        A = np.array(h["A"], dtype=complex)
        diag = np.array(h["diag"], dtype=complex)
        red = np.array(h["reduce"], dtype=np.int64)
        exph, expl = complex(*r["haf"]), complex(*r["lhaf"])
        ctx.case(("haf", r["i"]))
        for name, fn, exp in (("hafnian_with_reduction", lambda: hafnian_with_reduction(A, red), exph),
                              ("loop_hafnian_with_reduction", lambda: loop_hafnian_with_reduction(A, diag, red), expl),
                              ("connector.hafnian", lambda: conn.hafnian(A, red), exph),
                              ("connector.loop_hafnian", lambda: conn.loop_hafnian(A, diag, red), expl)):
            try:
                got = complex(fn())
            except Exception as e:  # noqa
                ctx.report(f"hafnian-raises:{name}:{h['reduce']}", f"{name} raised {type(e).__name__}: {str(e)[:80]} (reduce_on={h['reduce']})", {"inst": str(h)})
                continue
            if not close(got, exp, 1e-9):
                ctx.report(f"hafnian:{name}:{h['reduce']}", f"{name} = {got}, definition {exp} (reduce_on={h['reduce']})", {"A": [[str(x) for x in row] for row in h["A"]], "diag": [str(x) for x in h["diag"]], "reduce": h["reduce"]})
        ctx.validated()
    # pfaffian
    from piquasso._math.pfaffian import pfaffian as py_pf
    for r in res2.records("PFDEF"):
        K_ = np.array(pfinsts[r["i"] - 1], dtype=float)
        ctx.case(("pf", r["i"]))
        for name, fn in (("native pfaffian_cpp", lambda: NV.pfaffian(K_)), ("piquasso._math.pfaffian", lambda: py_pf(K_.copy())), ("connector.pfaffian", lambda: conn.pfaffian(K_.copy())),
                         ("pfaffian<float32>", lambda: py_pf(K_.astype(np.float32)))):
            got = float(fn())
            if not close(got, r["pf"], 1e-4 if "32" in name else 1e-9):
                ctx.report(f"pfaffian:{name}:{K_.shape[0]}", f"{name} = {got}, definition {r['pf']} for {K_.tolist()}", {"matrix": K_.tolist()})
        ctx.validated()
    # torontonian: definition = sum_Z (-1)^(n-|Z|) / sqrt(det(I - A_Z))
    from piquasso._math.torontonian import torontonian as py_tor
    for r in res2.records("TORDEF"):
        t = torinsts[r["i"] - 1]
        n, den = t["n"], t["den"]
        exp = 0.0
        for size, det in r["terms"].values() if isinstance(r["terms"], dict) else r["terms"]:
            exp += (-1) ** (n - size) / math.sqrt(det / den ** (2 * size)) if size else (-1) ** n
        A = np.array(t["A"], dtype=float) / den
        ctx.case(("tor", r["i"]))
        for name, fn in (("native torontonian_cpp", lambda: NV.torontonian(A.copy())), ("piquasso._math.torontonian", lambda: py_tor(A.copy())),
                         ("torontonian<float32>", lambda: py_tor(A.astype(np.float32)))):
            got = float(fn())
            if not close(got, exp, 2e-4 if "32" in name else 1e-9):
                ctx.report(f"torontonian:{name}:n={n}", f"{name} = {got}, definition {exp}", {"A": t["A"], "den": den})
        ctx.validated()
    # high-multiplicity regime: closed forms from BigNat
    NV.set_concurrency(None)
    for r in res2.records("RANKONE"):
        ro = rankone[r["i"] - 1]
        exp = 0
        for limb in r["limbs"]:
            exp = exp * 10000 + limb
        A = np.outer(ro["u"], ro["v"]).astype(complex)
        got = NV.permanent(A, ro["rows"], ro["cols"])
        ctx.case(("rankone", tuple(ro["rows"]), tuple(ro["cols"])))
        rel = abs(got - exp) / exp
        if rel > 1e-6:
            ctx.report(f"permanent_cpp:high-multiplicity:{ro['rows']}:{ro['cols']}",
                       f"permanent_cpp<double> of a rank-one matrix with multiplicities rows={ro['rows']} cols={ro['cols']}: relative error {rel:.3g} (value {got.real:.6g}, exact {float(exp):.6g})",
                       {"u": ro["u"], "v": ro["v"], "rows": ro["rows"], "cols": ro["cols"]})
        ctx.validated()
    # the same corpus under ASan + UBSan (undefined behaviour = violation)
    sanitizer(ctx, gp_insts, rankone, quick)
    ctx.sample({"instance": {"A": [[str(x) for x in row] for row in gp_insts[1]["A"]], "rows": gp_insts[1]["rows"], "cols": gp_insts[1]["cols"]},
                "exact_permanent": perms.get((2, 1), {}).get("perm")})
    ctx.sample({"gray_job": jobs[0] if jobs else None})
    ctx.assumptions += ["prebuilt Python extension modules cannot be rebuilt here (no pybind11): they are exercised as they are, the C++ from /repo/src is rebuilt by native/build.sh",
                        "closed forms of the high-multiplicity regime: rank-one matrices, perm = N! prod u^r prod v^c (BigNat)"]


def sanitizer(ctx, insts, rankone, quick):
    drv = VERIF / "native" / "san_driver.cpp"
    try:
        NV.build(san=True)
    except MachineryError as e:
        ctx.notes["sanitizer"] = "build failed: " + str(e)[:200]
        return
    lines = []
    for i in insts:
        A = np.array(i["A"], dtype=complex)
        if A.size == 0:
            continue
        lines.append("P %d %d %s %s %s" % (A.shape[0], A.shape[1], " ".join(f"{z.real} {z.imag}" for z in A.ravel()),
                                             " ".join(map(str, i["rows"])), " ".join(map(str, i["cols"]))))
    for r in rankone:
        A = np.outer(r["u"], r["v"]).astype(complex)
        lines.append("P %d %d %s %s %s" % (A.shape[0], A.shape[1], " ".join(f"{z.real} {z.imag}" for z in A.ravel()),
                                             " ".join(map(str, r["rows"])), " ".join(map(str, r["cols"]))))
    env = dict(os.environ, ASAN_OPTIONS="detect_leaks=0", UBSAN_OPTIONS="print_stacktrace=0:halt_on_error=0")
    p = subprocess.run([str(NV.build_dir() / "vf_san")], input="\n".join(lines) + "\n", capture_output=True, text=True, env=env, timeout=1200)
    reports = re.findall(r"(\S+:\d+:\d+): runtime error: ([^\n]+)", p.stderr)
    asan = re.findall(r"ERROR: AddressSanitizer: ([^\n]+)", p.stderr)
    ctx.notes["sanitizer"] = {"inputs": len(lines), "ubsan_reports": len(reports), "asan_reports": len(asan)}
    seen = set()
    for where, what in reports:
        key = f"{os.path.basename(where.split(':')[0])}:{where.split(':')[1]}:{what.split(':')[0][:40]}"
        if key in seen:
            continue
        seen.add(key)
        ctx.report(f"ubsan:{key}", f"undefined behaviour in native code at {where}: {what}", {"stderr": p.stderr[-1500:]})
    for a in asan:
        ctx.report(f"asan:{a[:60]}", f"AddressSanitizer: {a}", {"stderr": p.stderr[-1500:]})
