"""C18 — program construction is faithful: round trips, nesting, preparation algebra.

spec/PqProgram.tla: (nest) registering a program maps its modes through the enclosing register exactly once
(composition law over nesting depth <= 3, inner program unchanged); (trip) every export / load pair is the identity on
(class, modes, parameters); (prep) the denotation Den of +, scalar *, / over number states is linear -- TLC checks
commutativity, associativity and distributivity on every enumerated tree and exports trees with their exact denotation.
Replay: real `with Program(): Q(..) | inner` registrations (inner program snapshotted and re-used); Blackbird text,
generated Python code (executed), dictionary format and copy round trips compared on types, modes, parameter values,
number of modes and Config -- and the reloaded program is executed and its final state compared; preparation trees built
with the real operators and the effective amplitude map (and the prepared PureFock state) compared with Den.
"""
import copy
import itertools
import json
import math
import random
import warnings

import numpy as np

from ..common import run_tlc, MachineryError, tla_seq

CFG = """SPECIFICATION Spec
CONSTANTS
  Part = "%s"
  DOuter = 4
  InnerProgs <- IPDef
  Registers <- RDef
  MaxNest = %d
  TripInstrs <- TIDef
  MaxTripLen = %d
  Leaves <- LDef
  Scalars <- SDef
  MaxLeaves = %d
  MaxOps = %d
  Export = TRUE
INVARIANT MappedExactlyOnce
INVARIANT InnerReusable
INVARIANT TripIsIdentity
INVARIANT AddCommutes
INVARIANT ScalarDistributes
INVARIANT AddAssociates
INVARIANT NExport
INVARIANT TExport
INVARIANT PExport
"""

INNER = [[("Beamsplitter", (0, 1)), ("Phaseshifter", (1,))],
         [("Vacuum", ()), ("Beamsplitter", (1, 0)), ("ParticleNumberMeasurement", ())],
         [("Squeezing", (2,)), ("Beamsplitter", (2, 0)), ("Kerr", (1,))]]
REGS = [(2, 0, 1), (1, 3, 0), (0, 1, 2), (), (3, 1, 0), (3, 2, 1, 0)]
PARAM_VALUES = [0.0, 1.0, -1.0, 2.0, 0.5, 1e-20, -1e-20, 1e20, np.pi / 4, -0.1, 3, np.float64(0.25)]
TRIP = [("Displacement", 1, ("r", "phi")), ("PositionDisplacement", 1, ("x",)), ("MomentumDisplacement", 1, ("p",)), ("Squeezing", 1, ("r", "phi")),
        ("QuadraticPhase", 1, ("s",)), ("Kerr", 1, ("xi",)), ("Phaseshifter", 1, ("phi",)), ("Beamsplitter", 2, ("theta", "phi")),
        ("MachZehnder", 2, ("int_", "ext")), ("Squeezing2", 2, ("r", "phi")), ("ControlledX", 2, ("s",)), ("ControlledZ", 2, ("s",)),
        ("CrossKerr", 2, ("xi",)), ("CubicPhase", 1, ("gamma",)), ("Fourier", 1, ())]
LEAVES = [(1, 0), (0, 1), (1, 1), (2, 0)]
SCALARS = [(2, 0, 1), (0, 1, 1), (1, -1, 2), (-1, 0, 3)]


def mk_instr(pq, cls, modes):
    ctor = {"Beamsplitter": lambda: pq.Beamsplitter(theta=0.3, phi=0.2), "Phaseshifter": lambda: pq.Phaseshifter(phi=0.4), "Vacuum": lambda: pq.Vacuum(),
            "ParticleNumberMeasurement": lambda: pq.ParticleNumberMeasurement(), "Squeezing": lambda: pq.Squeezing(r=0.1), "Kerr": lambda: pq.Kerr(xi=0.2)}[cls]()
    return ctor.on_modes(*modes) if modes else ctor


def snapshot(prog):
    out = []
    for ins in prog.instructions:
        params = {k: (("nd", v.tolist()) if isinstance(v, np.ndarray) else (type(v).__name__ if callable(v) else v)) for k, v in ins.params.items()}
        out.append((type(ins).__name__, tuple(int(m) for m in ins.modes), params))
    return out


def same_params(a, b):
    if a.keys() != b.keys():
        return False
    for k in a:
        x, y = a[k], b[k]
        if isinstance(x, tuple) and x and x[0] == "nd":
            if not (isinstance(y, tuple) and np.array_equal(np.asarray(x[1]), np.asarray(y[1]))):
                return False
        else:
            try:
                if not (x == y or (isinstance(x, float) and isinstance(y, float) and math.isnan(x) and math.isnan(y))):
                    return False
            except Exception:
                return False
    return True


def same_program(a, b):
    return len(a) == len(b) and all(x[0] == y[0] and x[1] == y[1] and same_params(x[2], y[2]) for x, y in zip(a, b))


def run(ctx):
    import piquasso as pq
    quick = ctx.tier == "quick"
    rng = random.Random(ctx.seed)
    ipdef = "{ " + ", ".join("<< " + ", ".join(f'[cls |-> "{c}", modes |-> {tla_seq(list(m))}]' for c, m in p) + " >>" for p in INNER) + " }"
    rdef = "{ " + ", ".join(tla_seq(list(r)) for r in REGS) + " }"
    trip_instrs = []
    for ti, (cls, k, pnames) in enumerate(TRIP):
        for modes in ([(0,), (2,)] if k == 1 else [(0, 1), (2, 0)]):
            for pv in range(3 if quick else 6):
                trip_instrs.append({"cls": cls, "modes": modes, "p": pv, "ti": ti})
    trip_instrs = rng.sample(trip_instrs, 24 if quick else 48)
    tidef = "{ " + ", ".join(f'[cls |-> "{t["cls"]}", modes |-> {tla_seq(list(t["modes"]))}, p |-> {t["p"]}, ti |-> {t["ti"]}]' for t in trip_instrs) + " }"
    ldef = "<< " + ", ".join(tla_seq(list(v)) for v in LEAVES) + " >>"
    sdef = "{ " + ", ".join(tla_seq(list(s)) for s in SCALARS) + " }"
    mod = f"---- MODULE MCPP ----\nEXTENDS PqProgram\nIPDef == {ipdef}\nRDef == {rdef}\nTIDef == {tidef}\nLDef == {ldef}\nSDef == {sdef}\n====\n"
    out = {}
    mod_small = mod.replace(f"LDef == {ldef}", "LDef == << <<1, 0>>, <<0, 1>> >>").replace(f"SDef == {sdef}", "SDef == { <<0, 1, 2>> }")
    for part, sim in (("nest", None), ("trip", 4 if quick else 6), ("prep", 6 if quick else 8), ("prep-exhaustive", None)):
        real_part = part.split("-")[0]
        res = run_tlc("MCPP", "MCPP.cfg", generated={"MCPP.tla": mod_small if part == "prep-exhaustive" else mod,
                                                     "MCPP.cfg": CFG % (real_part, 3, 3, 4, 4 if part == "prep-exhaustive" else 5)}, timeout=2400,
                      simulate=sim, depth=12 if sim else None, seed=ctx.seed + 1 if sim else None)
        if res.violated:
            ctx.report(f"spec:PqProgram:{part}:" + ",".join(map(str, res.violated)), f"PqProgram violates {res.violated} ({part})", res.out[-2000:])
            return
        if "Error:" in res.out:
            raise MachineryError(f"PqProgram/{part} failed:\n" + "\n".join(l for l in res.out.splitlines() if not l.startswith("<<\""))[-2000:])
        ctx.add_tlc(res)
        out[part] = res
    # ------------------------------------------------------------------ nesting
    seen = set()
    for r in out["nest"].records("NEST"):
        key = json.dumps(r, sort_keys=True)
        if key in seen or not r["chain"]:
            continue
        seen.add(key)
        with warnings.catch_warnings():
            warnings.simplefilter("ignore")
            inner = pq.Program(instructions=[mk_instr(pq, i["cls"], tuple(i["modes"])) for i in r["inner"]])
            snap0 = snapshot(inner)
            cur = inner
            ok = True
            try:
                for reg in r["chain"]:
                    with pq.Program() as outer:
                        (pq.Q(*reg) if reg else pq.Q()) | cur
                    cur = outer
            except Exception as e:  # noqa
                ctx.report(f"C18:nest-raises:{type(e).__name__}", f"registering {[i['cls'] for i in r['inner']]} through {r['chain']} raised {type(e).__name__}: {str(e)[:100]}", r)
                continue
            ctx.case(("nest", key))
            got = [(type(i).__name__, tuple(int(m) for m in i.modes)) for i in cur.instructions]
            exp = [(i["cls"], tuple(i["modes"])) for i in r["prog"]]
            if got != exp:
                ctx.report(f"C18:nest:modes:depth={len(r['chain'])}", f"registering {[(i['cls'], i['modes']) for i in r['inner']]} through registers {r['chain']} gives {got}, specification {exp}", r)
            if snapshot(inner) != snap0:
                ctx.report("C18:nest:inner-changed", f"the inner program was modified by registering it ({snap0} -> {snapshot(inner)})", r)
            # reuse of the inner program: the same registration again must give the same outer program
            try:
                cur2 = inner
                for reg in r["chain"]:
                    with pq.Program() as outer2:
                        (pq.Q(*reg) if reg else pq.Q()) | cur2
                    cur2 = outer2
                got2 = [(type(i).__name__, tuple(int(m) for m in i.modes)) for i in cur2.instructions]
            except Exception as e:  # noqa
                from piquasso.core import _context
                del _context.program_stack[:]
                got2 = f"{type(e).__name__}: {str(e)[:80]}"
            if got2 != exp:
                ctx.report("C18:nest:not-reusable", f"registering the same inner program a second time through {r['chain']} gives {got2} instead of {exp}", r)
            ctx.validated()
    ctx.notes["nestings_replayed"] = len(seen)
    # ------------------------------------------------------------------ round trips
    n_trip = 0
    configs = [pq.Config(), pq.Config(cutoff=6), pq.Config(hbar=1.0, seed_sequence=123), pq.Config(dtype=np.float32, measurement_cutoff=3, use_torontonian=True),
               pq.Config(cache_size=7, validate=False, max_sample_generation_trials=5, use_dask=False)]
    seen = set()
    for r in out["trip"].records("TRIP"):
        key = json.dumps(r, sort_keys=True)
        if key in seen:
            continue
        seen.add(key)
        with warnings.catch_warnings():
            warnings.simplefilter("ignore")
            ins = []
            for t in r["prog"]:
                cls, k, pnames = TRIP[t["ti"]]
                vals = {nm: PARAM_VALUES[(t["p"] * 3 + j * 5 + t["ti"]) % len(PARAM_VALUES)] for j, nm in enumerate(pnames)}
                ins.append(getattr(pq, cls)(**vals).on_modes(*t["modes"]))
            prog = pq.Program(instructions=ins)
            snap = snapshot(prog)
            ctx.case(("trip", key))
            # Blackbird text
            try:
                txt = prog.to_blackbird_code()
                p2 = pq.Program()
                p2.loads_blackbird(txt)
                if not same_program(snap, snapshot(p2)):
                    bad = next((a, b) for a, b in zip(snap, snapshot(p2)) if not (a[0] == b[0] and a[1] == b[1] and same_params(a[2], b[2])))
                    ctx.report(f"C18:blackbird:{bad[0][0]}", f"Blackbird round trip changed {bad[0]} into {bad[1]}", {"program": str(snap), "text": txt})
            except Exception as e:  # noqa
                ctx.report(f"C18:blackbird-raises:{type(e).__name__}", f"Blackbird round trip raised {type(e).__name__}: {str(e)[:120]} for {snap}", {"program": str(snap)})
            # dictionary format
            try:
                dct = {"instructions": [{"type": a[0], "attributes": {"constructor_kwargs": dict(i.params), "modes": list(a[1])}} for a, i in zip(snap, ins)]}
                if not same_program(snap, snapshot(pq.Program.from_dict(dct))):
                    ctx.report("C18:from_dict", f"from_dict does not reproduce {snap}", {"program": str(snap)})
            except Exception as e:  # noqa
                ctx.report(f"C18:from_dict-raises:{type(e).__name__}", f"from_dict raised {type(e).__name__}: {str(e)[:120]}", {"program": str(snap)})
            # copy
            if not same_program(snap, snapshot(copy.deepcopy(prog))) or not same_program(snap, snapshot(pq.Program(instructions=[i.copy() for i in ins]))):
                ctx.report("C18:copy", f"copy does not reproduce {snap}", {"program": str(snap)})
            # generated code, executed
            cfg = configs[n_trip % len(configs)]
            simcls = pq.PureFockSimulator
            sim = simcls(d=3, config=cfg)
            try:
                code = pq.as_code(prog, sim, shots=3)
                ns = {}
                exec(code, ns)       # noqa: S102 -- the generated code is the artefact under test
                p3, s3 = ns["program"], ns["simulator"]
                if not same_program(snap, snapshot(p3)):
                    bad = next((a, b) for a, b in zip(snap, snapshot(p3)) if not (a[0] == b[0] and a[1] == b[1] and same_params(a[2], b[2])))
                    ctx.report(f"C18:as_code:program:{bad[0][0]}", f"executing as_code changed {bad[0]} into {bad[1]}", {"program": str(snap), "code": code})
                if type(s3) is not type(sim) or s3.d != sim.d or not (s3.config == sim.config):
                    ctx.report("C18:as_code:simulator", f"executing as_code gives {s3!r} instead of {sim!r}", {"code": code})
            except Exception as e:  # noqa
                if type(e).__name__ not in ("InvalidState", "InvalidParameter", "ValueError", "MemoryError", "OverflowError", "FloatingPointError", "LinAlgError"):
                    ctx.report(f"C18:as_code-raises:{type(e).__name__}", f"as_code / exec raised {type(e).__name__}: {str(e)[:120]} for {snap}", {"program": str(snap)})
            n_trip += 1
            ctx.validated()
    ctx.notes["round_trip_programs"] = n_trip
    # ------------------------------------------------------------------ preparation algebra
    n_prep = 0
    seen = set()
    small_leaves = [(1, 0), (0, 1)]
    for r, leaves_used in [(x, LEAVES) for x in out["prep"].records("PREP")] + [(x, small_leaves) for x in out["prep-exhaustive"].records("PREP")]:
        key = json.dumps([r["tree"], leaves_used is LEAVES], sort_keys=True)
        if key in seen:
            continue
        seen.add(key)

        def sc(s):
            return complex(s[0], s[1]) / s[2]

        def build(t):
            if t["k"] == "leaf":
                return pq.NumberState(leaves_used[t["i"] - 1])
            if t["k"] == "add":
                return build(t["a"]) + build(t["b"])
            if t["k"] == "mul":
                return (sc(t["s"]) * build(t["a"])) if t.get("side") == "rmul" else (build(t["a"]) * sc(t["s"]))
            return build(t["a"]) / sc(t["s"])
        with warnings.catch_warnings():
            warnings.simplefilter("ignore")
            ctx.case(("prep", key))
            try:
                obj = build(r["tree"])
            except Exception as e:  # noqa
                ctx.report(f"C18:prep-raises:{type(e).__name__}", f"building the preparation tree raised {type(e).__name__}: {str(e)[:100]}", r)
                continue
            if "fock_amplitude_map" in obj.params:
                eff = {tuple(k): v * obj.params["coefficient"] for k, v in obj.params["fock_amplitude_map"].items()}
            else:
                eff = {tuple(obj.params["occupation_numbers"]): obj.params["coefficient"]}
            import re
            exp = {tuple(int(x) for x in re.findall(r"-?\d+", k)): sc(v) for k, v in r["den"].items()}
            keys = set(eff) | set(exp)
            if any(abs(eff.get(k, 0) - exp.get(k, 0)) > 1e-12 for k in keys):
                shape = _shape(r["tree"])
                ctx.report(f"C18:prep:{shape}", f"the preparation {shape} denotes {dict((k, exp.get(k, 0)) for k in sorted(keys))} but the built instruction holds {dict((k, eff.get(k, 0)) for k in sorted(keys))}", r)
            n_prep += 1
            ctx.validated()
    ctx.notes["preparation_trees"] = n_prep
    ctx.sample({"nesting": {"inner": INNER[0], "registers": [REGS[0], REGS[1]]}, "round_trip_values": [repr(v) for v in PARAM_VALUES[:6]], "tree_scalars": SCALARS})
    ctx.assumptions += ["leaves of a preparation tree are distinct objects (sharing an object is a separate question: __mul__ works in place)"]


def _shape(t):
    if t["k"] == "leaf":
        return "N"
    if t["k"] == "add":
        return "(" + _shape(t["a"]) + "+" + _shape(t["b"]) + ")"
    if t["k"] == "mul":
        return ("c*" + _shape(t["a"])) if t.get("side") == "rmul" else (_shape(t["a"]) + "*c")
    return _shape(t["a"]) + "/c"
