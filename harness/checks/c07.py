"""C07 — built-in linear gates are physical and act as documented.

PqGaussian.tla defines every linear gate by its DOCUMENTED ladder-operator blocks (P, A) on the exact parameter lattice
and evolves a Gaussian state by the congruence Gam -> S Gam S^dagger, mu -> P mu + A conj(mu) + alpha.  TLC checks (ASSUME) that
every catalogue gate on every ordered mode tuple is symplectic in the ladder basis (S K S^dagger = K; passive gates unitary),
the documented identities (Fourier = PS(pi/2), 50:50 beamsplitter, Mach-Zehnder and two-mode-squeezing decompositions),
and on every reachable state Hermiticity and the commutation relations.  Replay: (a) the blocks returned by the code's
_get_passive_block / _get_active_block equal the spec blocks for every catalogue gate and hbar; (b) after every gate of
every sequence (depth <= 2/3, d = 2, 3; hbar in {1/2, 2, 8}) the simulator's _m, _C, _G and quadrature mean / covariance equal
the spec's exact congruence; displacements shift the quadrature means by sqrt(2 hbar) alpha.
"""
import random
import warnings

import numpy as np

from .. import lattice as L
from .. import gaussian_replay as GR


def identities(d):
    """TLA+ ASSUMEs for the documented identities, stated on 2 modes (0, 1)"""
    F = L._from_passive(L.fourier(0))
    PS2 = L._from_passive(L.phaseshifter(0, 2))
    B50 = L._from_passive(L.beamsplitter5050(0, 1))
    B = L._from_passive(L.beamsplitter(0, 1, "pi/4", 0))
    out = [f"IdF == {L.gauss_record(F)}", f"IdPS == {L.gauss_record(PS2)}", f"IdB50 == {L.gauss_record(B50)}", f"IdB == {L.gauss_record(B)}",
           "ASSUME MEq(Embed(IdF), Embed(IdPS))", "ASSUME MEq(Embed(IdB50), Embed(IdB))"]
    # Mach-Zehnder: MZ(int, ext) = B(pi/4, pi/2) (R(int) + 1) B(pi/4, pi/2) (R(ext) + 1)
    Bq = L._from_passive(L.beamsplitter(0, 1, "pi/4", 1))
    for a, b in ((1, 0), (1, 2), (3, 1)):
        MZ = L._from_passive(L.machzehnder(0, 1, a, b))
        Ri = L._from_passive(L.phaseshifter(0, 2 * a))
        Re = L._from_passive(L.phaseshifter(0, 2 * b))
        n = f"{a}{b}"
        out += [f"IdMZ{n} == {L.gauss_record(MZ)}", f"IdRi{n} == {L.gauss_record(Ri)}", f"IdRe{n} == {L.gauss_record(Re)}", f"IdBq{n} == {L.gauss_record(Bq)}",
                f"ASSUME MEq(Embed(IdMZ{n}), MMul(MMul(MMul(Embed(IdBq{n}), Embed(IdRi{n})), Embed(IdBq{n})), Embed(IdRe{n})))"]
    # two-mode squeezing: S_ij(z) = B_ij(pi/4, 0) [S_i(-z) x S_j(z)] B_ij(-pi/4, 0)
    Bm = {"name": "B(-pi/4)", "modes": (0, 1), "passive": True, "alpha": [L.Q0, L.Q0], "A": [[L.Q0, L.Q0], [L.Q0, L.Q0]],
          "P": [[L.q(L.ring(0, 1), 2), L.q(L.ring(0, 1), 2)], [L.q(L.ring(0, -1), 2), L.q(L.ring(0, 1), 2)]]}       # t = cos(-pi/4), r = sin(-pi/4)
    for rk, rmk in (("ln2", "-ln2"),):
        for k in range(4):
            S2 = L.squeezing2(0, 1, rk, k)
            Si = L.squeezing(0, rmk, k)         # S_i(-z): r -> -r
            Sj = L.squeezing(1, rk, k)
            n = f"{k}"
            out += [f"IdS2{n} == {L.gauss_record(S2)}", f"IdSi{n} == {L.gauss_record(Si)}", f"IdSj{n} == {L.gauss_record(Sj)}", f"IdBm{n} == {L.gauss_record(Bm)}",
                    f"ASSUME MEq(Embed(IdS2{n}), MMul(MMul(MMul(Embed(IdB), Embed(IdSi{n})), Embed(IdSj{n})), Embed(IdBm{n})))"]
    return "\n".join(out)


def run(ctx):
    import piquasso as pq
    quick = ctx.tier == "quick"
    rng = random.Random(ctx.seed)
    conn = pq.NumpyConnector()
    plans = [(2, 16 if quick else 30, 2), (3, 10 if quick else 20, 2)]
    if not quick:
        plans.append((2, 12, 3))
    first = True
    total = 0
    for (d, ng, depth) in plans:
        gates = L.gaussian_catalogue(d, rng=rng, size=ng)
        # (a) the code's blocks equal the documented (spec) blocks, for every hbar
        for g in gates:
            ins = g["mk"](pq)
            for h in L.HBARS:
                cfg = pq.Config(hbar=h[4])
                ctx.case(("block", g["name"], h[4]))
                try:
                    with warnings.catch_warnings():
                        warnings.simplefilter("ignore")
                        if hasattr(ins, "_get_passive_block"):
                            P = np.asarray(ins._get_passive_block(conn, cfg))
                            Pexp = np.array([[L.q_to_complex(x) for x in row] for row in g["P"]])
                            if np.abs(P - Pexp).max() > 1e-12:
                                ctx.report(f"C07:passive-block:{g['name'].split('(')[0]}:hbar={h[4]}", f"_get_passive_block of {g['name']} (hbar={h[4]}) differs from the documented block: {P.tolist()} vs {Pexp.tolist()}", {"gate": g["name"]})
                        if hasattr(ins, "_get_active_block"):
                            A = np.asarray(ins._get_active_block(conn, cfg))
                            Aexp = np.array([[L.q_to_complex(x) for x in row] for row in g["A"]])
                            if np.abs(A - Aexp).max() > 1e-12:
                                ctx.report(f"C07:active-block:{g['name'].split('(')[0]}:hbar={h[4]}", f"_get_active_block of {g['name']} (hbar={h[4]}) differs from the documented block: {A.tolist()} vs {Aexp.tolist()}", {"gate": g["name"]})
                except Exception as e:  # noqa
                    ctx.report(f"C07:block-raises:{g['name'].split('(')[0]}:{type(e).__name__}", f"{type(e).__name__}: {str(e)[:100]} for {g['name']}", {"gate": g["name"]})
        # (b) congruence after every gate
        recs = GR.explore(ctx, d, gates, depth, extra=identities(d) if first else "")
        first = False
        ctx.notes.setdefault("explorations", []).append({"d": d, "gates": [g["name"] + str(g["modes"]) for g in gates], "depth": depth, "states_exported": len(recs)})
        perm = GR.xxpp_to_xpxp_perm(d)
        for rec in recs:
            mu, Gam, reps, nbar = GR.decode(rec, d)
            idx = [i - 1 for i in rec["hist"]]
            names = [gates[i]["name"] + str(gates[i]["modes"]) for i in idx]
            sig = "/".join(n.split("(")[0] for n in names) or "vacuum"
            for h in L.HBARS:
                hb = h[4]
                ctx.case((tuple(names), hb), nontrivial=len(idx) > 0)
                try:
                    st = GR.build_state(pq, gates, idx, d, hb)
                except Exception as e:  # noqa
                    ctx.report(f"C07:execute-raises:{sig}:{type(e).__name__}", f"{type(e).__name__}: {str(e)[:100]} for {names} (hbar={hb})", {"gates": names, "hbar": hb})
                    continue
                tol = 1e-9 * max(1.0, np.abs(Gam).max())
                C = Gam[d:, d:]
                G = Gam[:d, d:]
                checks = [("_m", np.asarray(st._m), mu), ("_C", np.asarray(st._C), C), ("_G", np.asarray(st._G), G),
                          ("xxpp_mean_vector", np.asarray(st.xxpp_mean_vector), reps[hb][0]), ("xxpp_covariance_matrix", np.asarray(st.xxpp_covariance_matrix), reps[hb][1]),
                          ("xpxp_mean_vector", np.asarray(st.xpxp_mean_vector), reps[hb][0][perm]), ("xpxp_covariance_matrix", np.asarray(st.xpxp_covariance_matrix), reps[hb][1][np.ix_(perm, perm)])]
                for nm, got, exp in checks:
                    if got.shape != exp.shape or np.abs(got - exp).max() > tol:
                        ctx.report(f"C07:congruence:{nm}:{sig}:hbar={hb}",
                                   f"{nm} after {names} (hbar={hb}) differs from S Gam S^dagger of the documented blocks (max deviation {np.abs(got - exp).max() if got.shape == exp.shape else 'shape'})",
                                   {"gates": names, "hbar": hb, "quantity": nm})
                        break
                total += 1
            ctx.validated()
        if recs:
            rec = recs[len(recs) // 2]
            ctx.sample({"gates": [gates[i - 1]["name"] + str(gates[i - 1]["modes"]) for i in rec["hist"]], "exact_mu": rec["mu"], "exact_Gam_row1": rec["Gam"][0]})
    ctx.notes["states_x_hbar_compared"] = total
    ctx.notes["identities_checked_by_TLC"] = ["Fourier = Phaseshifter(pi/2)", "Beamsplitter5050 = Beamsplitter(pi/4, 0)", "MachZehnder = B R B R (3 lattice instances)",
                                              "Squeezing2(z) = B(pi/4,0) [S_i(-z) x S_j(z)] B(-pi/4,0) (r = ln 2, phi = k pi/2)"]
    ctx.assumptions += ["'for all real parameters' is established on the lattice only (tlapm certificate identities are not built in this round)"]
