"""C19 — the dual-rail translation preserves qubit-circuit statistics.

spec/PqQubit.tla: exact semantics of qubit circuits (lattice angles) including measurement as nondeterministic projection
and classically conditioned gates; TLC enumerates every circuit with <= MaxGates gates over the gate catalogue and EVERY
outcome history, checks norm / weight invariants and exports the exact weight of each history.  Replay: each circuit is
built as a Qiskit QuantumCircuit, translated with dual_rail_encode_from_qiskit and executed on PureFockSimulator with
shots=None; the branch weights, post-selected on the dual-rail code space and renormalised, must equal the exact qubit
distribution (1e-9 without cz/cx, 2e-3 with the fixed KLM beamsplitter angles); the same through finite shots and
get_bosonic_qubit_samples (support check).
"""
import math
import random
import warnings

import numpy as np

from ..common import run_tlc, MachineryError
from .. import lattice as L
from ..gaussian_replay import qv

Q0, Q1 = L.Q0, L.Q1
SQH = L.q(L.ring(0, 1), 2)          # 1/sqrt2


def qc(z):
    """small exact complex constants"""
    table = {1: Q1, -1: L.q(L.ring(-1)), 1j: L.q(L.ring(c=1)), -1j: L.q(L.ring(c=-1)), 0: Q0}
    return table[z]


def unit(k):
    return L.q(L.UNIT[k % 4])


def e8(k):
    """e^{i k pi/4}"""
    if k % 2 == 0:
        return unit(k // 2)
    base = {1: L.ring(0, 1, 0, 1), 3: L.ring(0, -1, 0, 1), 5: L.ring(0, -1, 0, -1), 7: L.ring(0, 1, 0, -1)}[k % 8]
    return L.q(base, 2)


def qmul(a, b):
    import math as _m
    n = L.rmul(a[0], b[0])
    d = a[1] * b[1]
    g = 0
    for x in n:
        g = _m.gcd(g, abs(x))
    g = _m.gcd(g, d)
    if g > 1:
        n = tuple(x // g for x in n)
        d //= g
    return (n, d)


def qneg(a):
    return (L.rneg(a[0]), a[1])


HALF = {"pi/2": (SQH, SQH, math.pi / 2), "pi": (Q0, Q1, math.pi), "2atan(4/3)": (L.q(L.ring(3), 5), L.q(L.ring(4), 5), 2 * math.atan2(4, 3)),
        "-pi/2": (SQH, qneg(SQH), -math.pi / 2)}     # (cos(theta/2), sin(theta/2), theta)


def catalogue(nq):
    ops = []
    mi = L.q(L.ring(c=-1))
    for q_ in range(nq):
        ops.append({"name": "h", "qubits": (q_,), "M": [[SQH, SQH], [SQH, qneg(SQH)]], "args": ()})
        ops.append({"name": "x", "qubits": (q_,), "M": [[Q0, Q1], [Q1, Q0]], "args": ()})
        ops.append({"name": "y", "qubits": (q_,), "M": [[Q0, mi], [L.q(L.ring(c=1)), Q0]], "args": ()})
        ops.append({"name": "z", "qubits": (q_,), "M": [[Q1, Q0], [Q0, L.q(L.ring(-1))]], "args": ()})
        for key, (c, s, th) in HALF.items():
            ops.append({"name": "rx", "qubits": (q_,), "M": [[c, qmul(mi, s)], [qmul(mi, s), c]], "args": (th,), "key": key})
            ops.append({"name": "ry", "qubits": (q_,), "M": [[c, qneg(s)], [s, c]], "args": (th,), "key": key})
        for k in (1, 2, 3, 6):          # rz(theta), theta = k pi/2 : diag(e^{-i theta/2}, e^{i theta/2})
            ops.append({"name": "rz", "qubits": (q_,), "M": [[e8(-k % 8), Q0], [Q0, e8(k % 8)]], "args": (k * math.pi / 2,), "key": f"{k}pi/2"})
        for k in (1, 2, 3, 5):          # p(lambda), lambda = k pi/4
            ops.append({"name": "p", "qubits": (q_,), "M": [[Q1, Q0], [Q0, e8(k)]], "args": (k * math.pi / 4,), "key": f"{k}pi/4"})
        for (key, kp, kl) in (("pi/2", 1, 2), ("2atan(4/3)", 3, 0), ("pi", 0, 1)):
            c, s, th = HALF[key]
            M = [[c, qneg(qmul(unit(kl), s))], [qmul(unit(kp), s), qmul(unit(kp + kl), c)]]
            ops.append({"name": "u", "qubits": (q_,), "M": M, "args": (th, kp * math.pi / 2, kl * math.pi / 2), "key": f"{key},{kp},{kl}"})
    if nq >= 2:
        for a in range(nq):
            for b in range(nq):
                if a != b:
                    Z = [[Q1 if i == j and i != 3 else (L.q(L.ring(-1)) if i == j else Q0) for j in range(4)] for i in range(4)]
                    ops.append({"name": "cz", "qubits": (a, b), "M": Z, "args": ()})
                    # cx(control a, target b): local index bit0 = a, bit1 = b: |a b> -> |a, b xor a> : swaps local 1 (a=1,b=0) <-> 3 (a=1,b=1)
                    X = [[Q0] * 4 for _ in range(4)]
                    for c_ in range(4):
                        r_ = c_ ^ 2 if c_ & 1 else c_
                        X[r_][c_] = Q1
                    ops.append({"name": "cx", "qubits": (a, b), "M": X, "args": ()})
    return ops


def op_record(o):
    return '[name |-> "%s", qubits |-> <<%s>>, M |-> %s]' % (o["name"], ", ".join(map(str, o["qubits"])), L.tla_qmat(o["M"]))


CFG = """SPECIFICATION Spec
CONSTANTS
  NQ = %d
  Ops <- ODef
  MaxGates = %d
  MidMeasure = %s
  Export = TRUE
INVARIANT NormOneBeforeMeasurement
INVARIANT WeightIsProbability
INVARIANT ExportEnd
"""


def run(ctx):
    import piquasso as pq
    from qiskit import QuantumCircuit, ClassicalRegister, QuantumRegister
    from piquasso.dual_rail_encoding import dual_rail_encode_from_qiskit, get_bosonic_qubit_samples
    quick = ctx.tier == "quick"
    rng = random.Random(ctx.seed + 19)
    plans = [(1, 10, 2, True, None), (2, 8, 2, True, None), (3, 6, 2, True, 4)]      # three qubits: conditioned two-qubit gates become possible
    if not quick:
        plans += [(2, 9, 3, True, None), (3, 8, 2, True, 20)]
    total = 0
    for (nq, nops, ngates, mid, sim) in plans:
        ops = catalogue(nq)
        two = [o for o in ops if len(o["qubits"]) == 2]
        one = [o for o in ops if len(o["qubits"]) == 1]
        ops = rng.sample(one, min(len(one), nops - min(2, len(two)))) + rng.sample(two, min(2, len(two)))
        mod = "---- MODULE MCQ ----\nEXTENDS PqQubit\nODef == << %s >>\n====\n" % ",\n ".join(op_record(o) for o in ops)
        res = run_tlc("MCQ", "MCQ.cfg", generated={"MCQ.tla": mod, "MCQ.cfg": CFG % (nq, ngates, "TRUE" if mid else "FALSE")}, timeout=3000,
                      simulate=sim, depth=ngates + nq + 2 if sim else None, seed=ctx.seed if sim else None)
        if res.violated:
            ctx.report("spec:PqQubit:" + ",".join(map(str, res.violated)), "PqQubit violates its own invariant", res.out[-2000:])
            return
        if "Error:" in res.out:
            raise MachineryError("PqQubit failed:\n" + "\n".join(l for l in res.out.splitlines() if not l.startswith('<<"QUBIT"'))[-2500:])
        ctx.add_tlc(res)
        # group outcome histories by circuit
        circuits = {}
        for r in res.records("QUBIT"):
            key = tuple((c["op"], tuple(c["cond"])) for c in r["circ"])
            circuits.setdefault(key, {})[tuple(tuple(o) for o in r["outs"])] = float(qv(r["w"]).real)
        keys = list(circuits)
        cap = 150 if quick else 700
        if len(keys) > cap:
            keys = rng.sample(keys, cap)
        ctx.notes.setdefault("explorations", []).append({"qubits": nq, "ops": [o["name"] + str(o.get("key", "")) + str(o["qubits"]) for o in ops], "gates": ngates,
                                                         "circuits": len(circuits), "replayed": len(keys), "mid_circuit": mid})
        for key in keys:
            hist = circuits[key]
            if not sim and abs(sum(hist.values()) - 1) > 1e-9:
                raise MachineryError(f"spec distribution of {key} sums to {sum(hist.values())}")
            # ---- build the Qiskit circuit
            qr, cr = QuantumRegister(nq), ClassicalRegister(nq)
            circ = QuantumCircuit(qr, cr)
            names = []
            ncz = 0
            order = []      # measurement order (qubits)
            # classical bit of a measurement: its position in the outcome record, or (the usual Qiskit idiom) the qubit's own index
            # ... or crossed (clbit = nq - 1 - qubit): the classical bit index then differs from both the qubit index and the measurement order
            mapping = hash(key) % 3
            natural = mapping == 0
            clbit_of = {}
            for (op, cond) in key:
                if op == 0:
                    clbit_of[cond[0]] = cond[0] if mapping == 0 else (len(order) if mapping == 1 else nq - 1 - cond[0])
                    circ.measure(qr[cond[0]], cr[clbit_of[cond[0]]])
                    order.append(cond[0])
                    names.append(f"measure({cond[0]})")
                    continue
                o = ops[op - 1]
                ncz += o["name"] in ("cz", "cx")

                def add(c_):
                    getattr(c_, o["name"])(*o["args"], *[qr[q_] for q_ in o["qubits"]])
                if len(cond) == 2:
                    pos = clbit_of[cond[0]]
                    with circ.if_test((cr[pos], cond[1])):
                        add(circ)
                    names.append(f"if c[{pos}]=={cond[1]}: {o['name']}{o.get('key', '')}{o['qubits']}")
                else:
                    add(circ)
                    names.append(f"{o['name']}{o.get('key', '')}{o['qubits']}")
            replay = {"circuit": names}
            sig = "/".join(sorted({n.split("(")[0].split(":")[-1].strip().rstrip("0123456789pi/,-atn") or n for n in names}))
            ctx.case(key)
            tol = 1e-9 if ncz == 0 else 2e-3
            with warnings.catch_warnings():
                warnings.simplefilter("ignore")
                try:
                    prog = dual_rail_encode_from_qiskit(circ)
                    d = 2 * nq + 2 * ncz
                    sim_ = pq.PureFockSimulator(d=d, config=pq.Config(cutoff=nq + 2 * ncz + 1, seed_sequence=5))
                    result = sim_.execute(prog, shots=None)
                except Exception as e:  # noqa
                    cond2q = any(len(c) == 2 and op and len(ops[op - 1]["qubits"]) == 2 for op, c in key)
                    ctx.report(f"C19:raises:{type(e).__name__}:{'cz' if ncz else 'nocz'}:{'cond-2q' if cond2q else ('cond' if any(len(c) == 2 for _, c in key) else 'plain')}:{'clbit=qubit' if natural and order and order[0] != 0 else ('clbit=position' if mapping < 2 else 'clbit=crossed')}",
                               f"translation / execution raised {type(e).__name__}: {str(e)[:120]} for {names}", replay)
                    continue
                got = {}
                for b in result.branches:
                    o_ = [int(x) for x in b.outcome]
                    pairs = [tuple(o_[i:i + 2]) for i in range(0, len(o_), 2)]
                    if any(p not in ((1, 0), (0, 1)) for p in pairs):
                        continue                      # outside the dual-rail code space
                    w = float(b.frequency) * (float(b.state.norm) if b.state is not None else 1.0)
                    bits = tuple((order[i], 0 if p == (1, 0) else 1) for i, p in enumerate(pairs))
                    got[bits] = got.get(bits, 0.0) + w
                tot = sum(got.values())
                if tot <= 0:
                    ctx.report(f"C19:no-weight:{sig}", f"no weight on the dual-rail code space for {names}", replay)
                    continue
                got = {k: v / tot for k, v in got.items()}
                exp = {k: v for k, v in hist.items()}
                if sim:
                    s_ = sum(exp.values())
                    if abs(s_ - 1) > 1e-9:
                        continue                      # simulation did not reach every outcome history of this circuit
                allk = set(got) | set(exp)
                worst = max(abs(got.get(k, 0.0) - exp.get(k, 0.0)) for k in allk)
                if worst > tol:
                    k = max(allk, key=lambda kk: abs(got.get(kk, 0.0) - exp.get(kk, 0.0)))
                    ctx.report(f"C19:distribution:{'cz' if ncz else 'nocz'}:{'cond' if any(len(c) == 2 for _, c in key) else 'plain'}:{sig}",
                               f"dual-rail statistics differ from the qubit circuit {names}: P{k} = {got.get(k, 0.0):.6f}, exact {exp.get(k, 0.0):.6f}", replay)
            total += 1
            ctx.validated()
        if keys:
            ctx.sample({"circuit": [(ops[o - 1]["name"] + str(ops[o - 1].get("key", "")) if o else "measure", list(c)) for o, c in keys[0]], "exact_distribution": {str(k): v for k, v in circuits[keys[0]].items()}})
    ctx.notes["circuits_replayed"] = total
    ctx.assumptions += ["Qiskit builds the circuits; the heralded CZ is specified only by its action on the code space (success weight divides out), compared at the 2e-3 tolerance the property grants"]
