"""C06 — Fock-basis enumeration and index functions are mutually inverse.

spec/FockBasis.tla + spec/FermiBasis.tla are state machines of the enumeration loops; TLC checks
(exhaustively in the bound) that the row written at position p has rank p (declaratively for small
bases, by the combinatorial number system otherwise), that sectors tile the index range, and exports
every (d, cutoff, position, row).  The harness compares the implementation's arrays row by row with
that behaviour and every index function with the position.
"""
import math
import random

import numpy as np

from ..common import run_tlc, tlc_ok, MachineryError, tla_seq


def _cfg(text, **kw):
    for k, v in kw.items():
        import re
        text = re.sub(rf"^\s*{k} = .*$", f"  {k} = {v}", text, flags=re.M)
    return text


def run(ctx):
    from ..common import SPEC
    import piquasso._math.fock as F
    import piquasso._math.indices as I
    import piquasso._math.combinatorics as K
    import piquasso.fermionic._utils as U

    quick = ctx.tier == "quick"
    dmax, cmax = (5, 6) if quick else (7, 9)
    fdmax = 7 if quick else 10
    # ---------------- bosonic -------------------------------------------------------------
    cfg = _cfg((SPEC / "FockBasis.cfg").read_text(), DMax=dmax, CMax=cmax, Export="TRUE")
    res = run_tlc("FockBasis", "MC.cfg", generated={"MC.cfg": cfg}, timeout=1500)
    if not tlc_ok(res, "FockBasis"):
        ctx.report("spec:FockBasis:" + ",".join(map(str, res.violated)),
                   "specification-level violation in FockBasis (oracle broken)", res.out[-3000:])
        return
    ctx.add_tlc(res)
    rows = {}
    for r in res.records("ROW"):
        rows[(r["d"], r["c"], r["pos"])] = tuple(r["row"])
    expected_total = sum(math.comb(d + c - 1, d) for d in range(1, dmax + 1) for c in range(1, cmax + 1))
    if len(rows) != expected_total:
        raise MachineryError(f"export incomplete: {len(rows)} rows, expected {expected_total}")
    ctx.notes["exhaustive"] = True
    ctx.notes["bounds"] = {"bosonic": {"d<=": dmax, "cutoff<=": cmax}, "fermionic": {"d<=": fdmax}}
    F.get_fock_space_basis.cache_clear()
    for d in range(1, dmax + 1):
        for c in range(1, cmax + 1):
            dim = math.comb(d + c - 1, d)
            spec_basis = np.array([rows[(d, c, p)] for p in range(dim)], dtype=np.int64).reshape(dim, d)
            key = f"boson d={d} c={c}"
            try:
                basis = np.asarray(F.nb_get_fock_space_basis(d, c))
                cached = np.asarray(F.get_fock_space_basis(d=d, cutoff=c))
            except Exception as e:  # noqa
                ctx.report(f"basis-raises:{d}:{c}", f"get_fock_space_basis({d},{c}) raised {type(e).__name__}: {e}", key)
                continue
            ctx.case(("basis", d, c), nontrivial=dim > 1)
            ctx.validated()
            if basis.shape != spec_basis.shape or not np.array_equal(basis, spec_basis):
                bad = _first_diff(basis, spec_basis)
                ctx.report(f"basis:{d}:{c}", f"get_fock_space_basis(d={d},cutoff={c}) differs from spec behaviour at {bad}",
                           {"d": d, "c": c, "first_diff": bad})
                continue
            if not np.array_equal(cached, spec_basis):
                ctx.report(f"basis-cached:{d}:{c}", "cached get_fock_space_basis differs", key)
            # dimension formulas
            if int(F.cutoff_fock_space_dim(cutoff=c, d=d)) != dim:
                ctx.report(f"dim:{d}:{c}", f"cutoff_fock_space_dim({c},{d}) = {F.cutoff_fock_space_dim(cutoff=c, d=d)} != {dim}", key)
            arr = F.cutoff_fock_space_dim_array(np.arange(c + 1), d)
            exp = [math.comb(d + k - 1, d) for k in range(c + 1)]
            # spec: Dim(d,k) rows were produced for each k<=cmax; compare with exported counts where available
            exp_spec = [0] + [sum(1 for p in range(math.comb(d + c - 1, d)) if sum(rows[(d, c, p)]) < k) for k in range(1, c + 1)]
            if list(map(int, arr)) != exp_spec or exp != exp_spec:
                ctx.report(f"dimarr:{d}:{c}", f"cutoff_fock_space_dim_array mismatch {list(arr)} vs spec {exp_spec}", key)
            # index functions on every row
            idx = [int(I.get_index_in_fock_space(tuple(int(x) for x in r))) for r in spec_basis]
            if idx != list(range(dim)):
                j = next(i for i in range(dim) if idx[i] != i)
                ctx.report(f"index:{d}:{c}", f"get_index_in_fock_space({tuple(spec_basis[j])}) = {idx[j]} != {j}",
                           {"d": d, "c": c, "row": spec_basis[j].tolist()})
            idx_np = [int(I.get_index_in_fock_space(np.array(r, dtype=np.int64))) for r in spec_basis[: min(dim, 50)]]
            if idx_np != list(range(min(dim, 50))):
                ctx.report(f"index-nd:{d}:{c}", "get_index_in_fock_space on ndarray rows mismatch", key)
            va = I.get_index_in_fock_space_array(spec_basis.astype(np.int32))
            if not np.array_equal(np.asarray(va), np.arange(dim)):
                ctx.report(f"indexarr:{d}:{c}", "get_index_in_fock_space_array mismatch", key)
            va64 = I.get_index_in_fock_space_array(spec_basis.astype(np.int64))
            if not np.array_equal(np.asarray(va64), np.arange(dim)):
                ctx.report(f"indexarr64:{d}:{c}", "get_index_in_fock_space_array (int64 input) mismatch", key)
            sums = spec_basis.sum(axis=1)
            base = np.array([math.comb(d + int(n) - 1, d) for n in sums])
            sub = np.array([int(I.get_index_in_fock_subspace(np.array(r))) for r in spec_basis])
            if not np.array_equal(sub, np.arange(dim) - base):
                j = int(np.nonzero(sub != np.arange(dim) - base)[0][0])
                ctx.report(f"subindex:{d}:{c}", f"get_index_in_fock_subspace({spec_basis[j].tolist()}) = {sub[j]} != {j - base[j]}", key)
            suba = np.asarray(I.get_index_in_fock_subspace_array(spec_basis.astype(np.int32)))
            if not np.array_equal(suba, np.arange(dim) - base):
                ctx.report(f"subindexarr:{d}:{c}", "get_index_in_fock_subspace_array mismatch", key)
            # sectors: partitions(d, n) is the n-sector of the spec behaviour; cardinality formula
            for n in range(c):
                sec = spec_basis[sums == n]
                if int(F.symmetric_subspace_cardinality(d, n)) != len(sec):
                    ctx.report(f"seccard:{d}:{n}", f"symmetric_subspace_cardinality({d},{n}) != {len(sec)}", key)
                if c == cmax or n == c - 1:
                    part = np.asarray(K.partitions(d, n))
                    if not np.array_equal(part, sec):
                        ctx.report(f"partitions:{d}:{n}", f"partitions(boxes={d},particles={n}) differs from spec sector", key)
            if d == dmax and c == cmax:
                ctx.sample({"kind": "bosonic basis", "d": d, "cutoff": c, "rows": dim, "first_rows": spec_basis[:6].tolist()})
    # unconstrained partitions_bounded_k equals partitions (same ordering promised by its docstring)
    for d in range(1, min(dmax, 4) + 1):
        for n in range(0, 4):
            full = np.asarray(K.partitions(d, n))
            for mode in range(d):
                for mx in range(0, n + 1):
                    for kl in range(0, 3):
                        got = np.asarray(K.partitions_bounded_k(d, n, [mode], [mx], kl))
                        exp = np.array([r for r in full if r[mode] <= mx and mx - r[mode] <= kl]).reshape(-1, d)
                        ctx.case(("pbk", d, n, mode, mx, kl))
                        if not np.array_equal(got, exp):
                            ctx.report(f"pbk:{d}:{n}:{mode}:{mx}:{kl}",
                                       f"partitions_bounded_k({d},{n},[{mode}],[{mx}],{kl}) is not the filtered sub-sequence of the spec sector", None)
    # ---------------- random large vectors (spec Rank evaluated by TLC) --------------------
    rng = random.Random(ctx.seed)
    vecs = []
    while len(vecs) < (60 if quick else 400):
        d = rng.randint(2, 12)
        n = rng.randint(0, 30)
        cuts = sorted(rng.randint(0, n) for _ in range(d - 1))
        v = [b - a for a, b in zip([0] + cuts, cuts + [n])]
        if rng.random() < 0.3:
            rng.shuffle(v)
        if math.comb(d + n, d) < 2 ** 31 - 1:   # Dim(d, n+1): the index of v is below it
            vecs.append(v)
    mc = "---- MODULE MCRank ----\nEXTENDS RankEval\nVecsDef == " + tla_seq(vecs) + "\n====\n"
    cfgr = "SPECIFICATION Spec\nCONSTANT Vecs <- VecsDef\n"
    res = run_tlc("MCRank", "MCRank.cfg", generated={"MCRank.tla": mc, "MCRank.cfg": cfgr}, workers=1, timeout=600)
    if not tlc_ok(res, "RankEval"):
        raise MachineryError("RankEval failed")
    ctx.add_tlc(res)
    rk = {r["i"]: r for r in res.records("RANK")}
    if len(rk) != len(vecs):
        raise MachineryError("RankEval export incomplete")
    for i, v in enumerate(vecs, 1):
        ctx.case(("large", tuple(v)))
        got = int(I.get_index_in_fock_space(tuple(v)))
        gsub = int(I.get_index_in_fock_subspace(np.array(v)))
        ga = int(np.asarray(I.get_index_in_fock_space_array(np.array([v], dtype=np.int32)))[0])
        if got != rk[i]["rank"] or gsub != rk[i]["sub"] or ga != rk[i]["rank"]:
            ctx.report(f"large:{v}", f"index of {v}: code {got}/{gsub}/array {ga} vs spec {rk[i]['rank']}/{rk[i]['sub']}", {"vec": v})
    ctx.sample({"kind": "large vector", "vec": vecs[0], "spec_rank": rk[1]["rank"]})
    # ---------------- fermionic ------------------------------------------------------------
    cfg = _cfg((SPEC / "FermiBasis.cfg").read_text(), DMax=fdmax, Export="TRUE")
    res = run_tlc("FermiBasis", "MC.cfg", generated={"MC.cfg": cfg}, timeout=1500)
    if not tlc_ok(res, "FermiBasis"):
        ctx.report("spec:FermiBasis:" + ",".join(map(str, res.violated)), "specification-level violation in FermiBasis", res.out[-3000:])
        return
    ctx.add_tlc(res)
    frows = {}
    for r in res.records("FROW"):
        frows[(r["d"], r["c"], r["pos"])] = (tuple(r["fq"]), tuple(r["occ"]))
    for d in range(1, fdmax + 1):
        for c in range(1, d + 2):
            dim = sum(math.comb(d, k) for k in range(c))
            try:
                spec_basis = np.array([frows[(d, c, p)][1] for p in range(dim)], dtype=np.int64).reshape(dim, d)
            except KeyError:
                raise MachineryError(f"fermionic export incomplete at d={d} c={c}")
            key = f"fermion d={d} c={c}"
            ctx.case(("fbasis", d, c), nontrivial=dim > 1)
            ctx.validated()
            try:
                basis = np.asarray(U.get_fock_space_basis(d, c))
            except Exception as e:  # noqa
                ctx.report(f"fbasis-raises:{d}:{c}", f"fermionic get_fock_space_basis raised {type(e).__name__}: {e}", key)
                continue
            if basis.shape != spec_basis.shape or not np.array_equal(basis, spec_basis):
                ctx.report(f"fbasis:{d}:{c}", f"fermionic get_fock_space_basis({d},{c}) differs at {_first_diff(basis, spec_basis)}", key)
                continue
            if int(U.get_cutoff_fock_space_dimension(d, c)) != dim:
                ctx.report(f"fdim:{d}:{c}", "get_cutoff_fock_space_dimension mismatch", key)
            arr = U.cutoff_fock_space_dim_array(np.arange(c + 1), d)
            if list(map(int, arr)) != [sum(1 for p in range(dim) if sum(frows[(d, c, p)][1]) < k) for k in range(c + 1)]:
                ctx.report(f"fdimarr:{d}:{c}", "fermionic cutoff_fock_space_dim_array mismatch", key)
            if c == d + 1:
                for p in range(dim):
                    fq, occ = frows[(d, c, p)]
                    k = len(fq)
                    sbase = sum(math.comb(d, j) for j in range(k))
                    if int(U.get_fock_space_index(np.array(occ))) != p:
                        ctx.report(f"findex:{d}:{occ}", f"get_fock_space_index({occ}) = {U.get_fock_space_index(np.array(occ))} != {p}", key)
                        break
                    if int(U.get_fock_subspace_index(np.array(occ))) != p - sbase:
                        ctx.report(f"fsubindex:{d}:{occ}", f"get_fock_subspace_index({occ}) != {p - sbase}", key)
                        break
                    if int(U.get_fock_subspace_index_first_quantized(np.array(fq, dtype=np.int64), d)) != p - sbase:
                        ctx.report(f"fsubindexfq:{d}:{fq}", "get_fock_subspace_index_first_quantized mismatch", key)
                        break
                    if p + 1 < dim:
                        nxt = tuple(int(x) for x in U.next_first_quantized(np.array(fq, dtype=np.int64), d))
                        if nxt != frows[(d, c, p + 1)][0]:
                            ctx.report(f"fnext:{d}:{fq}", f"next_first_quantized({fq},{d}) = {nxt}, spec {frows[(d, c, p + 1)][0]}", key)
                            break
                        nx2 = tuple(int(x) for x in U.next_second_quantized(np.array(occ, dtype=np.int64)))
                        if nx2 != frows[(d, c, p + 1)][1]:
                            ctx.report(f"fnext2:{d}:{occ}", "next_second_quantized mismatch", key)
                            break
                for k in range(d + 1):
                    if int(U.get_fock_subspace_dimension(d, k)) != sum(1 for p in range(dim) if len(frows[(d, c, p)][0]) == k):
                        ctx.report(f"fsecdim:{d}:{k}", "get_fock_subspace_dimension mismatch", key)
                b2f = np.asarray(U.binary_to_fock_indices(d))
                exp = np.array([sum(o << (d - 1 - i) for i, o in enumerate(frows[(d, c, p)][1])) for p in range(dim)])
                if not np.array_equal(b2f, exp):
                    ctx.report(f"b2f:{d}", "binary_to_fock_indices mismatch", key)
                f2b = np.asarray(U.fock_to_binary_indices(d))
                if not np.array_equal(f2b[exp], np.arange(dim)):
                    ctx.report(f"f2b:{d}", "fock_to_binary_indices is not the inverse permutation", key)
                if d == fdmax:
                    ctx.sample({"kind": "fermionic basis", "d": d, "rows": dim, "rows_4_8": spec_basis[4:8].tolist()})
    ctx.assumptions += [
        "TLC/SANY/CommunityModules; numpy array comparison",
        "Rank formula (combinatorial number system) cross-checked against the declarative rank only for bases with <= DeclMax rows; injectivity of Rank beyond that bound follows from the formula, not from TLC",
    ]


def _first_diff(a, b):
    if a.shape != b.shape:
        return {"shape_code": list(a.shape), "shape_spec": list(b.shape)}
    w = np.argwhere(a != b)
    i = int(w[0][0])
    return {"pos": i, "code": a[i].tolist(), "spec": b[i].tolist()}
