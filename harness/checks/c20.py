"""C20 — condition / parameter expressions are safe and mean what Python means.

spec/PqExpr.tla: reference semantics (CPython's int/bool/float/tuple/list fragment) + AST enumerator +
minimal-parenthesis printer.  TLC enumerates expressions (exhaustive small vocabulary, simulation on the
rich one) and prints source + value for each outcome tuple.  Three-way comparison:
    spec value  ==  piquasso Expression(src)(x)  ==  CPython eval(src)
(a spec/CPython disagreement is a machinery failure, never a verdict).
spec/PqExprLife.tla: grammar + life cycle; recorded constructions/calls are validated as traces
(accept/reject decision must equal the spec's, nothing evaluated unless accepted).
"""
import ast
import json
import os
import random
import re
import sys
import tempfile

import numpy as np

from ..common import run_tlc, tlc_ok, MachineryError, SPEC


# ----------------------------------------------------------------------------- value decoding
def _dec(s, i=0):
    c = s[i]
    if c == "i":
        m = re.match(r"-?\d+", s[i + 1:])
        return int(m.group()), i + 1 + m.end()
    if c == "b":
        return bool(int(s[i + 1])), i + 2
    if c == "f":
        m = re.match(r"(-?\d+)/(\d+)", s[i + 1:])
        return int(m.group(1)) / int(m.group(2)), i + 1 + m.end()
    if c in "tl":
        assert s[i + 1] == "("
        j = i + 2
        out = []
        while s[j] != ")":
            v, j = _dec(s, j)
            out.append(v)
            if s[j] == ",":
                j += 1
        return (tuple(out) if c == "t" else out), j + 1
    raise ValueError(s[i:])


def decode(s):
    if s == "s":
        return ("skip", None)
    if s[0] == "e":
        return ("err", s[1:])
    v, j = _dec(s)
    assert j == len(s), s
    return ("val", v)


def same(a, b):
    """type-sensitive equality (bool/int/float distinguished; -0.0 == 0.0)."""
    if type(a) is not type(b):
        return False
    if isinstance(a, (tuple, list)):
        return len(a) == len(b) and all(same(x, y) for x, y in zip(a, b))
    return a == b


def loose_same(a, b):
    """value equality for numpy-scalar runs: numpy scalar types are mapped to python kinds."""
    def norm(v):
        if isinstance(v, (np.bool_,)):
            return bool(v)
        if isinstance(v, np.integer):
            return int(v)
        if isinstance(v, np.floating):
            return float(v)
        if isinstance(v, tuple):
            return tuple(norm(x) for x in v)
        if isinstance(v, list):
            return [norm(x) for x in v]
        if isinstance(v, np.ndarray):
            return ("nd", v.tolist())
        return v
    a, b = norm(a), norm(b)
    try:
        if isinstance(a, float) and isinstance(b, float) and a != a and b != b:
            return True
        return type(a) is type(b) and a == b
    except Exception:
        return False


def _has_ndarray(v):
    if isinstance(v, np.ndarray):
        return True
    if isinstance(v, (tuple, list)):
        return any(_has_ndarray(x) for x in v)
    return False


def outcome(fn):
    import warnings
    try:
        with warnings.catch_warnings():
            warnings.simplefilter("ignore")
            return ("val", fn())
    except Exception as e:  # noqa
        return ("err", type(e).__name__)


# ----------------------------------------------------------------------------- recorder
class Recorder:
    """Patches Expression._validate / _eval (attribute patching, no repo edit) and logs life-cycle events."""

    def __init__(self):
        import piquasso.core._expressions as E
        self.E = E
        self.traces = []
        self.cur = None
        self.depth = 0
        self.orig_validate = E.Expression.__dict__["_validate"]
        self.orig_eval = E.Expression._eval
        self.orig_init = E.Expression.__init__
        self.orig_call = E.Expression.__call__
        rec = self

        def validate(tree):
            kinds = [type(n).__name__ for n in ast.walk(tree)]
            names = [n.id for n in ast.walk(tree) if isinstance(n, ast.Name)]
            consts = [type(n.value).__name__ for n in ast.walk(tree) if isinstance(n, ast.Constant)]
            ok = True
            try:
                return rec.orig_validate.__func__(tree)
            except BaseException:
                ok = False
                raise
            finally:
                if rec.cur is not None:
                    rec.cur.append({"e": "parse", "ok": True})
                    rec.cur.append({"e": "validate", "kinds": kinds, "names": names, "consts": consts, "accept": ok})

        def _eval(self_, node, x):
            if rec.depth == 0 and rec.cur is not None:
                rec.cur.append({"e": "eval"})
            rec.depth += 1
            try:
                return rec.orig_eval(self_, node, x)
            finally:
                rec.depth -= 1

        def init(self_, src):
            rec.cur = []
            rec.traces.append(rec.cur)
            self_._verif_trace = rec.cur
            try:
                rec.orig_init(self_, src)
                rec.cur.append({"e": "constructed"})
            except BaseException as e:
                if not any(ev["e"] == "parse" for ev in rec.cur):
                    rec.cur.append({"e": "parse", "ok": False})
                rec.cur.append({"e": "raise", "phase": "init", "cls": type(e).__name__})
                raise
            finally:
                rec.cur = None

        def call(self_, x=None):
            rec.cur = getattr(self_, "_verif_trace", None)
            try:
                return rec.orig_call(self_, x)
            finally:
                rec.cur = None

        E.Expression._validate = staticmethod(validate)
        E.Expression._eval = _eval
        E.Expression.__init__ = init
        E.Expression.__call__ = call

    def undo(self):
        E = self.E
        E.Expression._validate = self.orig_validate
        E.Expression._eval = self.orig_eval
        E.Expression.__init__ = self.orig_init
        E.Expression.__call__ = self.orig_call


AUDIT = {"on": False, "events": []}
_hook_installed = [False]


def _audit(event, args):
    if AUDIT["on"] and (event in ("exec", "import", "os.system", "subprocess.Popen", "open", "os.exec",
                                  "os.spawn", "os.posix_spawn", "socket.connect", "os.remove", "os.rename",
                                  "ctypes.dlopen", "builtins.input", "object.__getattr__")
                        or event.startswith("os.") or event.startswith("shutil.")):
        AUDIT["events"].append(event)


HOSTILE = [
    "__import__('os').system('echo pwned')", "x.__class__", "x.__class__.__mro__[1].__subclasses__()",
    "(lambda: 1)()", "[i for i in x]", "{i for i in x}", "{i: i for i in x}", "(i for i in x)",
    "'a' * 3", "\"abc\"", "b'a'", "f'{x}'", "f'{__import__(\"os\")}'", "1 if x else 2", "(y := 1)", "y", "X", "xx", "_",
    "None", "...", "1j", "x[0] is 1", "1 in x", "1 not in x", "x is not x", "2 // 1", "1 << 2", "4 >> 1", "~1",
    "1 | 2", "1 & 2", "x @ x", "*x", "(*x,)", "[*x]", "{1: 2}", "{1, 2}", "await x", "yield 1", "print(1)",
    "len(x)", "sum(x)", "abs(-1)", "int('1')", "x.count(1)", "x[0].real", "open('/etc/passwd')", "exec('1')",
    "eval('1')", "compile('1','','eval')", "globals()", "locals()", "getattr(x, 'count')", "type(x)",
    "x[0]; 1", "import os", "x = 1", "del x", "lambda: x", "x[0](1)", "True.real", "(1).bit_length()",
    "1 if True else __import__('os')", "x and x.y", "not x.y", "x[x.y]", "x[::x.y]", "(1, x.y)", "[x.y]",
    "-x.y", "1 + x.y", "1 < x.y", "1 < 2 < x.y", "", " ", "(", ")", "x[", "1 +", "== 1", "x[0] = 1", "x[0] +== 1",
    "1 2", "x x", "0x", "1e", "1__0", "'", "\\", "x[0]]", "x[[0]", "@", "$", "x[0] === 1", "not", "and", "1 and", "x..y",
    "\n__import__('os')", "1\n+__import__('os')", "x\x00", "__builtins__", "__name__", "NotImplemented",
    "True.__class__", "().__class__.__bases__[0]", "x.__getitem__(0)", "x[0].__add__(1)", "[].append(1)",
    "1 if 1 else 2", "x if x else x", "x[0] or print(1)", "0 and __import__('os')", "[1, 'a']", "(1, None)",
    "x[None:None]", "x[...]", "x['a']", "x[1j]", "1e400 * 0 == float('nan')", "float('inf')", "complex(1)",
]


def _mutate(src, rng):
    """single-token mutations of an accepted source"""
    toks = re.findall(r"\d+\.\d+|\d+|\*\*|==|!=|<=|>=|[A-Za-z_]+|\S", src)
    if not toks:
        return []
    out = []
    repl = ["//", "<<", ">>", "|", "&", "@", "~", "in", "is", "not in", "is not", "if", "else", "lambda", ":=", "y",
            "None", "'a'", "1j", ".", ".real", "(", ")", "[", "]", ",", ":", "=", "==", "!", "abs", "x.y", "f''", "...",
            "+", "-", "*", "/", "%", "**", "^", "<", ">", "and", "or", "not", "x", "True", "0", "2", "0.5", "-1"]
    for _ in range(3):
        i = rng.randrange(len(toks))
        kind = rng.random()
        t = list(toks)
        if kind < 0.6:
            t[i] = rng.choice(repl)
        elif kind < 0.8:
            del t[i]
        else:
            t.insert(i, rng.choice(repl))
        out.append(" ".join(t))
    return out


def _expected_accept(src, allowed, const_ok):
    """The spec's grammar decision for an arbitrary string: parses as a Python expression and every AST node is
    in the spec's Allowed set, names are x, constants numeric/boolean."""
    try:
        tree = ast.parse(src.strip(), mode="eval")
    except (SyntaxError, ValueError, RecursionError, MemoryError):
        return False
    for n in ast.walk(tree):
        if type(n).__name__ not in allowed:
            return False
        if isinstance(n, ast.Name) and n.id != "x":
            return False
        if isinstance(n, ast.Constant) and type(n.value).__name__ not in const_ok:
            return False
    return True


def run(ctx):
    import piquasso as pq
    from piquasso.api.exceptions import InvalidExpression, PiquassoException
    import piquasso.core._expressions as E

    quick = ctx.tier == "quick"
    cfg_base = (SPEC / "PqExpr.cfg").read_text()

    def cfg(**kw):
        t = cfg_base
        for k, v in kw.items():
            t = re.sub(rf"^\s*{k} = .*$", f"  {k} = {v}", t, flags=re.M)
        return t

    runs = []
    # exhaustive: all ASTs with <= 3 postfix tokens over the small vocabulary
    res = run_tlc("PqExpr", "MC.cfg", generated={"MC.cfg": cfg(MaxTok=3, XLen=2, Rich="FALSE")}, timeout=1500)
    if not tlc_ok(res, "PqExpr exhaustive"):
        ctx.report("spec:PqExpr:" + ",".join(map(str, res.violated)), "specification-level violation in PqExpr", res.out[-2000:])
        return
    ctx.add_tlc(res)
    runs.append(("exhaustive<=3tok", res))
    ctx.notes["exhaustive_small_vocabulary"] = True
    # simulation: rich vocabulary, up to 9 postfix tokens (depth <= 4)
    num = 6 if quick else 60
    res2 = run_tlc("PqExpr", "MC.cfg", generated={"MC.cfg": cfg(MaxTok=9, XLen=2 if quick else 3, Rich="TRUE")},
                   simulate=num, depth=10, seed=ctx.seed + 1, timeout=3000)
    if res2.violated or "Error:" in res2.out:
        if res2.violated:
            ctx.report("spec:PqExpr-sim:" + ",".join(map(str, res2.violated)), "specification-level violation in PqExpr (simulation)", res2.out[-2000:])
            return
        raise MachineryError("PqExpr simulation failed:\n" + res2.out[-1500:])
    ctx.add_tlc(res2)
    runs.append(("simulate<=9tok", res2))

    rec = Recorder()
    if not _hook_installed[0]:
        sys.addaudithook(_audit)
        _hook_installed[0] = True
    accepted_sources = []
    try:
        seen = set()
        n_skip = 0
        for label, r in runs:
            m = re.search(r'"XLIST",\s*"(.*?)"', r.out, flags=re.S)
            if not m:
                raise MachineryError("XLIST not exported")
            xlist = [tuple(t) for t in json.loads(m.group(1))]
            recs = r.records("EXPR")
            if not recs:
                raise MachineryError("no expressions exported")
            for e in recs:
                src = e["src"]
                if src in seen:
                    continue
                seen.add(src)
                try:
                    expr = E.Expression(src)
                except Exception as ex:  # noqa
                    ctx.report(f"reject-valid:{src}", f"grammar expression {src!r} rejected: {type(ex).__name__}: {ex}", {"src": src})
                    continue
                accepted_sources.append(src)
                nontrivial = False
                for x, enc in zip(xlist, e["vals"]):
                    kind, sv = decode(enc)
                    py = outcome(lambda: eval(src, {"__builtins__": {}}, {"x": x}))  # CPython's own meaning
                    if kind == "skip":
                        n_skip += 1
                    else:
                        agree = (kind == py[0]) and (same(sv, py[1]) if kind == "val" else sv == py[1])
                        if not agree:
                            raise MachineryError(f"oracle disagreement spec vs CPython on {src!r} x={x}: spec {enc} vs python {py}")
                        nontrivial = True
                    got = outcome(lambda: expr(x))
                    # the property constrains VALUES: where Python raises, the expression must raise too (the class of the exception is not
                    # part of the statement; a differing class is counted, not judged)
                    ok = (got[0] == py[0]) and (same(got[1], py[1]) if py[0] == "val" else True)
                    if ok and py[0] == "err" and got[1] != py[1]:
                        ctx.notes["exception_class_differs"] = ctx.notes.get("exception_class_differs", 0) + 1
                    if not ok:
                        ctx.report(f"value:{src}:{x}", f"Expression({src!r})({x}) = {got} but Python gives {py} (spec {enc})",
                                   {"src": src, "x": list(x), "spec": enc})
                        break
                    # np.int32 operands (what real outcome tuples contain): compare with CPython on the same operands
                    x32 = tuple(np.int32(v) for v in x)
                    py32 = outcome(lambda: eval(src, {"__builtins__": {}}, {"x": x32}))
                    got32 = outcome(lambda: expr(x32))
                    ok32 = (got32[0] == py32[0]) and (loose_same(got32[1], py32[1]) if py32[0] == "val" else got32[1] == py32[1])
                    # numpy scalar semantics (np.bool_ results, broadcasting, 32-bit wrap) may change what the
                    # expression means; a verdict is taken only where CPython gives the same answer for np.int32
                    # operands as for int operands, i.e. where "the value Python would give" is unambiguous.
                    unambiguous = (py32[0] == py[0]) and (loose_same(py32[1], py[1]) if py[0] == "val" else py32[1] == py[1])
                    if not unambiguous or kind != "val":
                        ok32 = True   # ill-typed in the model or numpy changed the meaning: no verdict
                    if not ok32 and got32[0] == "err" and got32[1] == "ValueError":
                        try:
                            expr(x32)
                        except ValueError as ve:
                            if "truth value of an" in str(ve):   # an ndarray intermediate (scalar-vs-sequence broadcasting)
                                ok32 = True
                        except Exception:
                            pass
                    if not ok32:
                        ctx.report(f"value32:{src}:{x}", f"Expression({src!r})(np.int32 {x}) = {got32} but Python gives {py32}",
                                   {"src": src, "x": list(x), "np_int32": True})
                        break
                ctx.case(src, nontrivial=nontrivial)
                ctx.validated()
            ctx.sample({"run": label, "src": recs[len(recs) // 2]["src"], "vals": recs[len(recs) // 2]["vals"][:6], "x": [list(t) for t in xlist[:6]]})
        ctx.notes["skipped_outside_model"] = n_skip
        ctx.notes["expressions"] = len(seen)

        # through the Instruction API: conditions and string parameters mean the same
        rng = random.Random(ctx.seed)
        api_n = 0
        for src in rng.sample(accepted_sources, min(len(accepted_sources), 300 if quick else 2000)):
            for x in [(), (1,), (0, 2), (2, 1, 0)]:
                py = outcome(lambda: eval(src, {"__builtins__": {}}, {"x": x}))
                ins = pq.Phaseshifter(phi=0.1).when(src)
                got = outcome(lambda: ins._is_condition_met(x))
                if py[0] == "val":
                    if got[0] != "val" or not same(got[1], py[1]):
                        ctx.report(f"cond:{src}:{x}", f"condition {src!r} on {x}: instruction gives {got}, Python {py}", {"src": src, "x": list(x)})
                elif got[0] != "err" or got[1] not in ("PiquassoException", "InvalidParameter", py[1]):
                    ctx.report(f"cond-err:{src}:{x}", f"condition {src!r} on {x}: Python raises {py[1]}, instruction gives {got}", {"src": src, "x": list(x)})
                ins2 = pq.Phaseshifter(phi=src)
                before = dict(ins2._params)

                def res_():
                    ins2._resolve_params(x)
                    return ins2._params["phi"]
                got2 = outcome(res_)
                ins2._unresolve_params()
                if py[0] == "val":
                    if got2[0] != "val" or not same(got2[1], py[1]):
                        ctx.report(f"param:{src}:{x}", f"parameter {src!r} on {x}: resolved {got2}, Python {py}", {"src": src, "x": list(x)})
                elif got2[0] != "err":
                    ctx.report(f"param-err:{src}:{x}", f"parameter {src!r} on {x}: Python raises {py[1]} but resolution returned {got2}", {"src": src})
                if ins2._params.keys() != before.keys() or str(ins2._params["phi"]) != str(before["phi"]):
                    ctx.report(f"param-unresolve:{src}", "string parameter not restored by _unresolve_params", {"src": src})
                api_n += 1
        ctx.notes["instruction_api_evaluations"] = api_n

        # ------------------------------------------------------------------ rejection side
        # grammar constants are read from the spec text (single source of truth) -- evaluated by TLC in the trace run below
        txt = (SPEC / "PqExprLife.tla").read_text()
        allowed = set(re.findall(r'"(\w+)"', re.search(r"^Allowed == \{(.*?)\}", txt, flags=re.S | re.M).group(1)))
        nodekinds = set(re.findall(r'"(\w+)"', re.search(r"^NodeKinds == \{(.*?)\}", txt, flags=re.S | re.M).group(1)))
        const_ok = set(re.findall(r'"(\w+)"', re.search(r"^ConstOK == \{(.*?)\}", txt, flags=re.S | re.M).group(1)))
        py_nodes = {n for n in dir(ast) if isinstance(getattr(ast, n), type) and issubclass(getattr(ast, n), ast.AST)}
        missing = {k for k in allowed if k not in py_nodes}
        if missing:
            raise MachineryError(f"spec Allowed names unknown to CPython ast: {missing}")
        corpus = list(HOSTILE)
        for src in rng.sample(accepted_sources, min(len(accepted_sources), 400 if quick else 4000)):
            corpus += _mutate(src, rng)
        n_rej = n_acc = 0
        for src in corpus:
            exp_accept = _expected_accept(src, allowed, const_ok)
            AUDIT["events"] = []
            n_before = len(rec.traces)
            AUDIT["on"] = True
            try:
                r = outcome(lambda: E.Expression(src))
            finally:
                AUDIT["on"] = False
            ctx.case(("rej", src))
            if exp_accept:
                n_acc += 1
                if r[0] != "val":
                    ctx.report(f"reject-valid:{src}", f"{src!r} is inside the grammar but was rejected ({r[1]})", {"src": src})
                    continue
                for x in [(), (1,), (0, 2), (2, 1, 0)]:
                    py = outcome(lambda: eval(src, {"__builtins__": {}}, {"x": x}))
                    got = outcome(lambda: r[1](x))
                    ok = (got[0] == py[0]) and (same(got[1], py[1]) if py[0] == "val" else True)
                    if ok and py[0] == "err" and got[1] != py[1]:
                        ctx.notes["exception_class_differs"] = ctx.notes.get("exception_class_differs", 0) + 1
                    if not ok:
                        ctx.report(f"value:{src}:{x}", f"Expression({src!r})({x}) = {got} but Python gives {py}", {"src": src, "x": list(x)})
                        break
            else:
                n_rej += 1
                if r[0] == "val":
                    ctx.report(f"accept-invalid:{src}", f"{src!r} is outside the grammar but was accepted", {"src": src})
                elif r[1] != "InvalidExpression":
                    ctx.report(f"reject-class:{src}", f"{src!r} rejected with {r[1]} instead of InvalidExpression", {"src": src})
                if AUDIT["events"]:
                    ctx.report(f"side-effect:{src}", f"constructing Expression({src!r}) triggered {AUDIT['events']}", {"src": src})
                # via the instruction API
                for mk in (lambda: pq.Phaseshifter(phi=0.1).when(src), lambda: pq.Phaseshifter(phi=src)):
                    g = outcome(mk)
                    if g[0] == "val" or g[1] != "InvalidExpression":
                        ctx.report(f"api-accept-invalid:{src}", f"instruction API accepted / mis-rejected {src!r}: {g}", {"src": src})
        ctx.notes["rejection_corpus"] = {"expected_reject": n_rej, "expected_accept": n_acc}
        ctx.sample({"hostile": HOSTILE[0], "expected": "InvalidExpression at construction, nothing evaluated"})
    finally:
        rec.undo()

    # ------------------------------------------------------------------ trace validation of the recorded life cycles
    traces = [t for t in rec.traces if t]
    # thin out: keep every rejected / failed construction and a sample of the accepted ones (eval events capped)
    keep = []
    rng = random.Random(ctx.seed)
    for t in traces:
        acc = any(ev["e"] == "constructed" for ev in t)
        if not acc or rng.random() < (0.05 if quick else 0.1):
            keep.append([ev for i, ev in enumerate(t) if ev["e"] != "eval" or i < 8])
    keep = keep[: (4000 if quick else 30000)]
    rt = run_tlc("PqExprLife", "PqExprLife.cfg", generated={"traces.json": json.dumps(keep)}, timeout=1500, heap="8g")
    if rt.violated:
        ctx.report("lifecycle-invariant:" + ",".join(map(str, rt.violated)),
                   "recorded Expression life cycle violates " + ",".join(map(str, rt.violated)), rt.out[-1500:])
    elif "Error:" in rt.out:
        raise MachineryError("PqExprLife trace run failed:\n" + rt.out[-1500:])
    ctx.add_tlc(rt)
    reach = {}
    for m in re.finditer(r'<<"AT", (\d+), (\d+), (\d+)>>', rt.out):
        tid, l, n = map(int, m.groups())
        reach[tid] = max(reach.get(tid, 0), l)
    bad = 0
    for tid, t in enumerate(keep, 1):
        if reach.get(tid, 0) != len(t) + 1:
            bad += 1
            at = reach.get(tid, 1)
            ev = t[at - 1] if at - 1 < len(t) else None
            ctx.report(f"lifecycle:{json.dumps(ev, sort_keys=True)[:200]}",
                       f"recorded trace rejected by PqExprLife at event {at}: {ev}", {"trace": t, "stuck_at": at})
    ctx.validated(len(keep) - bad)
    ctx.notes["lifecycle_traces"] = {"recorded": len(traces), "validated_by_TLC": len(keep), "rejected": bad}
    ctx.assumptions += ["CPython's eval is the meaning of 'what Python means' (three-way check protects the spec)",
                        "audit events: exec/import/os.*/open/subprocess during construction of rejected strings"]
