"""C13 — invalid programs are rejected up front; valid ones are never refused.

TLC: RejectBeforeEvolve / NeverRefuseValid on MCEngine with single-fault mutants (WithInvalid) exhaustively.
Replay into the real simulators:
  * every single-fault mutation of a valid base program per simulator (negative / out-of-range / repeated mode,
    wrong arity, preparation after a gate, unsupported instruction, unsupported mid-circuit measurement,
    invalid shots, shots=None where unsupported, mismatching initial state, documented parameter errors)
    must raise a PiquassoException with ZERO simulation steps recorded and must be accepted by PqEngineTrace
    (which predicts the exception class of every structural rule);
  * every instruction in the DOCUMENTED support list of each simulator (class docstrings) must execute for
    every cutoff 1..4; every instruction outside the documented list and outside the map must be rejected.
"""
import copy
import re
import warnings

import numpy as np

from .. import engine_campaign as EC
from ..recorder import EngineRecorder


def factory(pq, name, d, cutoff=3):
    """a valid instance of instruction class `name` for a d-mode register (modes set)"""
    I2 = np.identity(2)
    full = tuple(range(d))
    two = (0, 1) if d >= 2 else None
    U = np.diag(np.exp(1j * 0.1 * np.arange(1, d + 1)))
    one = 1 if cutoff >= 2 else 0          # a one-photon state needs cutoff >= 2
    t = {
        "Vacuum": lambda: pq.Vacuum(),
        "Mean": lambda: pq.Mean(np.zeros(2 * d)).on_modes(*full),
        "Covariance": lambda: pq.Covariance(np.identity(2 * d) * 2.0).on_modes(*full),
        "Thermal": lambda: pq.Thermal([0.5] * d).on_modes(*full),
        "NumberState": lambda: pq.NumberState([one] + [0] * (d - 1)).on_modes(*full),
        "DistinguishableNumberState": lambda: pq.DistinguishableNumberState([1] + [0] * (d - 1), particle_overlap=0.5).on_modes(*full),
        "FockStateVector": lambda: pq.FockStateVector({tuple([one] + [0] * (d - 1)): 1.0}).on_modes(*full),
        "StateVector": lambda: pq.StateVector([one] + [0] * (d - 1)).on_modes(*full),
        "DensityMatrix": lambda: pq.DensityMatrix(ket=[one] + [0] * (d - 1), bra=[one] + [0] * (d - 1)).on_modes(*full),
        "Create": lambda: pq.Create().on_modes(0),
        "Annihilate": lambda: pq.Annihilate().on_modes(0),
        "Interferometer": lambda: pq.Interferometer(U).on_modes(*full),
        "Beamsplitter": lambda: pq.Beamsplitter(theta=0.3, phi=0.2).on_modes(*two),
        "Beamsplitter5050": lambda: pq.Beamsplitter5050().on_modes(*two),
        "Phaseshifter": lambda: pq.Phaseshifter(phi=0.3).on_modes(0),
        "MachZehnder": lambda: pq.MachZehnder(int_=0.3, ext=0.2).on_modes(*two),
        "Fourier": lambda: pq.Fourier().on_modes(0),
        "GaussianTransform": lambda: pq.GaussianTransform(passive=np.identity(d) * np.cosh(0.1), active=np.identity(d) * np.sinh(0.1)).on_modes(*full),
        "Squeezing": lambda: pq.Squeezing(r=0.1, phi=0.3).on_modes(0),
        "QuadraticPhase": lambda: pq.QuadraticPhase(s=0.2).on_modes(0),
        "Squeezing2": lambda: pq.Squeezing2(r=0.1, phi=0.2).on_modes(*two),
        "ControlledX": lambda: pq.ControlledX(s=0.2).on_modes(*two),
        "ControlledZ": lambda: pq.ControlledZ(s=0.2).on_modes(*two),
        "Displacement": lambda: pq.Displacement(r=0.2, phi=0.1).on_modes(0),
        "PositionDisplacement": lambda: pq.PositionDisplacement(x=0.2).on_modes(0),
        "MomentumDisplacement": lambda: pq.MomentumDisplacement(p=0.2).on_modes(0),
        "CubicPhase": lambda: pq.CubicPhase(gamma=0.1).on_modes(0),
        "Kerr": lambda: pq.Kerr(xi=0.2).on_modes(0),
        "SNAP": lambda: pq.SNAP(theta=0.1 * np.arange(1, cutoff + 1)).on_modes(0),
        "CrossKerr": lambda: pq.CrossKerr(xi=0.2).on_modes(*two),
        "Graph": lambda: pq.Graph(np.array([[0, 1], [1, 0]]) if d == 2 else np.ones((d, d)) - np.identity(d)).on_modes(*full),
        "DeterministicGaussianChannel": lambda: pq.DeterministicGaussianChannel(X=np.identity(2) * 0.9, Y=np.identity(2) * 2.5).on_modes(0),
        "Attenuator": lambda: pq.Attenuator(theta=0.3).on_modes(0),
        "Loss": lambda: pq.Loss(transmissivity=np.array([0.9])).on_modes(0),
        "UniformLoss": lambda: pq.UniformLoss(transmissivity=0.9).on_modes(*full),
        "LossyInterferometer": lambda: pq.LossyInterferometer(U * 0.9).on_modes(*full),
        "ParticleNumberMeasurement": lambda: pq.ParticleNumberMeasurement().on_modes(*full),
        "ImperfectParticleNumberMeasurement": lambda: pq.ImperfectParticleNumberMeasurement(
            detector_efficiency_matrix=np.array([[1.0, 0.1, 0.0], [0.0, 0.9, 0.2], [0.0, 0.0, 0.8]])).on_modes(*full),
        "ThresholdMeasurement": lambda: pq.ThresholdMeasurement().on_modes(*full),
        "GeneraldyneMeasurement": lambda: pq.GeneraldyneMeasurement(detection_covariance=I2).on_modes(0),
        "HomodyneMeasurement": lambda: pq.HomodyneMeasurement().on_modes(0),
        "HeterodyneMeasurement": lambda: pq.HeterodyneMeasurement().on_modes(0),
        "PostSelectPhotons": lambda: pq.PostSelectPhotons(photon_counts=(0,)).on_modes(d - 1),
        "ImperfectPostSelectPhotons": lambda: pq.ImperfectPostSelectPhotons(
            photon_counts=(0,), detector_efficiency_matrix=np.array([[1.0, 0.1, 0.0], [0.0, 0.9, 0.2], [0.0, 0.0, 0.8]])).on_modes(d - 1),
        "ControlledPhase": lambda: pq.fermionic.ControlledPhase(phi=0.3).on_modes(*two),
        "IsingXX": lambda: pq.fermionic.IsingXX(phi=0.3).on_modes(*two),
        "GaussianHamiltonian": lambda: pq.fermionic.GaussianHamiltonian(
            hamiltonian=np.block([[-np.conj(np.identity(d)), np.zeros((d, d))], [np.zeros((d, d)), np.identity(d)]]).astype(complex)).on_modes(*full),
    }
    if name not in t:
        return None
    return t[name]()


def simulators(pq):
    return {
        "GaussianSimulator": (pq.GaussianSimulator, [lambda d: pq.Vacuum()], False),
        "PureFockSimulator": (pq.PureFockSimulator, [lambda d: pq.Vacuum()], True),
        "FockSimulator": (pq.FockSimulator, [lambda d: pq.Vacuum()], True),
        "PassiveSimulator": (pq.PassiveSimulator, [lambda d: pq.NumberState([1] * min(d, 2) + [0] * (d - min(d, 2))).on_modes(*range(d))], False),
        "fermionic.GaussianSimulator": (pq.fermionic.GaussianSimulator, [lambda d: pq.NumberState([1] + [0] * (d - 1)).on_modes(*range(d))], False),
        "fermionic.PureFockSimulator": (pq.fermionic.PureFockSimulator, [lambda d: pq.NumberState([1] + [0] * (d - 1)).on_modes(*range(d))], True),
    }


def run_recorded(pq, sim, instrs, shots=1, initial_state=None):
    rec = EngineRecorder().install()
    status, exc, result = "done", None, None
    try:
        with warnings.catch_warnings():
            warnings.simplefilter("ignore")
            result = sim.execute(pq.Program(instructions=instrs), shots=shots, initial_state=initial_state)
    except Exception as e:  # noqa
        status, exc = "failed", e
    finally:
        rec.uninstall()
    # simulation steps of instructions other than preparations (state initialisation is not evolution)
    nsteps = 0
    for t in rec.traces:
        prog = t["events"][0].get("prog", []) if t["events"] else []
        i = 0
        for ev in t["events"]:
            if ev.get("e") == "ibegin":
                i = ev["i"]
            elif ev.get("e") == "step" and not (0 < i <= len(prog) and prog[i - 1].get("kind") == "prep"):
                nsteps += 1
    return status, exc, result, nsteps, rec.traces


def expect_reject(ctx, pq, key, what, sim, instrs, all_traces, shots=1, initial_state=None, build_error=None):
    from piquasso.api.exceptions import PiquassoException
    ctx.case(key)
    if build_error is not None:
        if not isinstance(build_error, PiquassoException):
            ctx.report(f"C13:reject-class:{key}", f"{what}: rejected while building the program, but with {type(build_error).__name__} instead of a Piquasso exception", {"case": key})
        return
    status, exc, result, nsteps, traces = run_recorded(pq, sim, instrs, shots, initial_state)
    all_traces += traces
    if status == "done":
        ctx.report(f"C13:accepted-invalid:{key}", f"{what}: executed and returned a result instead of being rejected", {"case": key, "program": [repr(x) for x in instrs]})
    elif not isinstance(exc, PiquassoException):
        ctx.report(f"C13:reject-class:{key}", f"{what}: raised {type(exc).__name__} ({str(exc)[:80]}) instead of a Piquasso exception",
                   {"case": key, "program": [repr(x) for x in instrs]})
    elif nsteps != 0:
        ctx.report(f"C13:evolved-before-reject:{key}", f"{what}: {nsteps} simulation step(s) ran before {type(exc).__name__} was raised",
                   {"case": key, "program": [repr(x) for x in instrs]})


def mutants(ctx, pq, all_traces):
    sims = simulators(pq)
    for sname, (S, prep, has_cutoff) in sims.items():
        d = 3
        cfg = pq.Config(cutoff=4, seed_sequence=3)
        mk = lambda: S(d=d, config=cfg)     # noqa
        gates = {"GaussianSimulator": ["Squeezing", "Beamsplitter", "Phaseshifter"], "PureFockSimulator": ["Beamsplitter", "Kerr", "Phaseshifter"],
                 "FockSimulator": ["Beamsplitter", "Kerr", "Phaseshifter"], "PassiveSimulator": ["Beamsplitter", "Phaseshifter", "Interferometer"],
                 "fermionic.GaussianSimulator": ["Beamsplitter", "Phaseshifter", "Interferometer"],
                 "fermionic.PureFockSimulator": ["Beamsplitter", "Phaseshifter", "Interferometer"]}[sname]

        def base():
            return [p(d) for p in prep] + [factory(pq, g, d) for g in gates] + [pq.ParticleNumberMeasurement().on_modes(*range(d))]
        # the base program itself must be accepted
        status, exc, _, _, tr = run_recorded(pq, mk(), base())
        all_traces += tr
        ctx.case(("base", sname))
        if status != "done":
            ctx.report(f"C13:valid-refused:base:{sname}", f"valid base program refused on {sname}: {type(exc).__name__}: {str(exc)[:100]}", {"sim": sname})
            continue
        npre = len(prep)
        for pos in range(npre, npre + len(gates)):
            g = base()[pos]
            nm = len(g.modes)
            variants = {"negative-mode": tuple([-1] + list(g.modes[1:])), "out-of-range-mode": tuple([d] + list(g.modes[1:]))}
            if nm >= 2:
                variants["repeated-mode"] = tuple([g.modes[0]] * nm)
            for vname, modes in variants.items():
                prog = base()
                err = None
                try:
                    prog[pos]._modes = None
                    prog[pos] = prog[pos].on_modes(*modes)
                except Exception as e:  # noqa
                    err = e
                expect_reject(ctx, pq, f"{vname}:{sname}:{type(g).__name__}@{pos}", f"{vname} {modes} for {type(g).__name__} on {sname}", mk(), prog, all_traces, build_error=err)
            if g.NUMBER_OF_MODES is not None:
                for wrong in ({1: (0, 1), 2: (0,)}[g.NUMBER_OF_MODES], (0, 1, 2)):
                    prog = base()
                    err = None
                    try:
                        prog[pos] = copy.copy(prog[pos]).on_modes(*wrong)
                    except Exception as e:  # noqa
                        err = e
                    expect_reject(ctx, pq, f"wrong-arity:{sname}:{type(g).__name__}:{len(wrong)}", f"{type(g).__name__} on {len(wrong)} modes ({sname})", mk(), prog, all_traces, build_error=err)
            # preparation after a gate
            prog = base()
            prog.insert(pos + 1, prep[0](d))
            expect_reject(ctx, pq, f"prep-after-gate:{sname}@{pos + 1}", f"preparation after a gate on {sname}", mk(), prog, all_traces)
        # fixed-arity gates registered without modes (Q() / Q(all)) on a register of another size, and through from_dict
        for gname in ("Squeezing", "Kerr", "Phaseshifter", "Beamsplitter5050", "Beamsplitter", "Fourier"):
            g0 = factory(pq, gname, d)
            if g0 is None or not any(type(g0) is c for c in mk()._instruction_map):
                continue
            fresh = type(g0)(**{k: v for k, v in g0.params.items()})
            prog = [p(d) for p in prep] + [fresh] + [pq.ParticleNumberMeasurement().on_modes(*range(d))]
            expect_reject(ctx, pq, f"default-modes-arity:{sname}:{gname}", f"{gname} (arity {g0.NUMBER_OF_MODES}) registered on all {d} modes of {sname}", mk(), prog, all_traces)
            try:
                dct = {"instructions": [{"type": gname, "attributes": {"constructor_kwargs": dict(g0.params), "modes": list(range(d))}}]}
                err = None
                progd = pq.Program.from_dict(dct)
            except Exception as e:  # noqa
                err, progd = e, None
            expect_reject(ctx, pq, f"from_dict-arity:{sname}:{gname}", f"{gname} on {d} modes built with Program.from_dict ({sname})", mk(),
                          ([p(d) for p in prep] + list(progd.instructions)) if progd is not None else [], all_traces, build_error=err)
        # repeated mode in the final measurement
        prog = base()
        prog[-1] = pq.ParticleNumberMeasurement().on_modes(0, 0)
        expect_reject(ctx, pq, f"repeated-mode:{sname}:ParticleNumberMeasurement", f"repeated mode (0,0) in ParticleNumberMeasurement on {sname}", mk(), prog, all_traces)
        # invalid shots
        for bad in (0, -1, 1.5, "1", [1]):
            expect_reject(ctx, pq, f"shots:{sname}:{bad!r}", f"shots={bad!r} on {sname}", mk(), base(), all_traces, shots=bad)
        # mismatching initial state
        other = pq.GaussianSimulator(d=d).create_initial_state() if sname != "GaussianSimulator" else pq.PureFockSimulator(d=d, config=cfg).create_initial_state()
        nobase = [x for x in base() if not isinstance(x, pq.api.instruction.Preparation)]
        expect_reject(ctx, pq, f"initial-state-class:{sname}", f"initial_state of another simulator's class on {sname}", mk(), nobase, all_traces, initial_state=other)
        wrongd = S(d=d + 1, config=cfg).create_initial_state()
        expect_reject(ctx, pq, f"initial-state-d:{sname}", f"initial_state with d+1 modes on {sname}", mk(), nobase, all_traces, initial_state=wrongd)
        # unsupported mid-circuit measurement / shots=None
        sim = mk()
        for mname in ("ParticleNumberMeasurement", "ThresholdMeasurement", "HomodyneMeasurement", "HeterodyneMeasurement", "GeneraldyneMeasurement"):
            M = factory(pq, mname, d)
            if M is None or not any(type(M) is c for c in sim._instruction_map):
                continue
            if not isinstance(M, sim._measurement_classes_allowed_mid_circuit):
                prog = base()[:-1] + [copy.copy(M).on_modes(0), factory(pq, gates[-1], d), pq.ParticleNumberMeasurement().on_modes(1, 2)]
                expect_reject(ctx, pq, f"mid-circuit:{sname}:{mname}", f"{mname} as a mid-circuit measurement on {sname} (documented as terminal only)", mk(), prog, all_traces)
            if not isinstance(M, sim._measurement_classes_allowed_with_shots_none):
                prog = base()[:-1] + [M]
                expect_reject(ctx, pq, f"shots-none:{sname}:{mname}", f"{mname} with shots=None on {sname}", mk(), prog, all_traces, shots=None)
    # outcome-dependent (feed-forward) parameters that become invalid on some branch: must raise a Piquasso exception there
    from piquasso.api.exceptions import PiquassoException
    ff_cases = [
        ("PassiveSimulator", lambda: [pq.NumberState([1, 0, 1]).on_modes(0, 1, 2), pq.Beamsplitter(theta=np.pi / 4).on_modes(0, 1), pq.ParticleNumberMeasurement().on_modes(0),
                                      pq.UniformLoss(transmissivity=lambda x: 1.5 * x[-1]).on_modes(1, 2)], "UniformLoss(transmissivity=1.5*x[-1])", None),
        ("PassiveSimulator", lambda: [pq.NumberState([1, 0, 1]).on_modes(0, 1, 2), pq.Beamsplitter(theta=np.pi / 4).on_modes(0, 1), pq.ParticleNumberMeasurement().on_modes(0),
                                      pq.UniformLoss(transmissivity="1.5 * x[-1]").on_modes(1, 2)], "UniformLoss(transmissivity='1.5 * x[-1]')", 50),
        ("GaussianSimulator", lambda: [pq.Vacuum(), pq.Squeezing(r=0.5).on_modes(0), pq.HomodyneMeasurement().on_modes(0),
                                       pq.Thermal(mean_photon_numbers=lambda x: [-1.0 - abs(x[0])]).on_modes(1)] if False else
                                      [pq.Vacuum(), pq.Squeezing(r=0.5).on_modes(0), pq.HomodyneMeasurement().on_modes(0),
                                       pq.Interferometer(matrix=lambda x: np.ones((1, 2))).on_modes(1)], "Interferometer(matrix -> non-square)", 3),
    ]
    sims_ff = simulators(pq)
    for sname, mkprog, what, shots in ff_cases:
        ctx.case(("feed-forward", sname, what))
        status, exc, result, nsteps, traces = run_recorded(pq, sims_ff[sname][0](d=3 if sname == "PassiveSimulator" else 2, config=pq.Config(seed_sequence=1)), mkprog(), shots=shots)
        all_traces += traces
        if status == "done":
            ctx.report(f"C13:accepted-invalid:feed-forward:{sname}:{what.split('(')[0]}", f"{what} on {sname}: the parameter resolves to an invalid value on a branch but a result was returned", {"what": what})
        elif not isinstance(exc, PiquassoException):
            ctx.report(f"C13:reject-class:feed-forward:{sname}:{what.split('(')[0]}", f"{what} on {sname}: raised {type(exc).__name__} instead of a Piquasso exception", {"what": what})
    # documented parameter errors (config.validate on)
    cfg = pq.Config(cutoff=4)
    param_cases = [
        ("GaussianSimulator", lambda: [pq.Vacuum(), pq.Interferometer(np.ones((2, 3))).on_modes(0, 1)], "non-square Interferometer"),
        ("PureFockSimulator", lambda: [pq.Vacuum(), pq.Interferometer(np.ones((2, 3))).on_modes(0, 1)], "non-square Interferometer"),
        ("GaussianSimulator", lambda: [pq.Vacuum(), pq.GaussianTransform(passive=np.identity(2) * 2, active=np.identity(2)).on_modes(0, 1)], "non-symplectic GaussianTransform"),
        ("GaussianSimulator", lambda: [pq.Vacuum(), pq.Graph(np.array([[0, 1], [0, 0]])).on_modes(0, 1)], "non-symmetric Graph adjacency matrix"),
        ("GaussianSimulator", lambda: [pq.Thermal([-1.0, 0.2]).on_modes(0, 1)], "negative thermal photon number"),
        ("PassiveSimulator", lambda: [pq.NumberState([1, 0]).on_modes(0, 1), pq.UniformLoss(transmissivity=1.5).on_modes(0, 1)], "UniformLoss transmissivity > 1"),
        ("PassiveSimulator", lambda: [pq.NumberState([1, 0]).on_modes(0, 1), pq.LossyInterferometer(np.identity(2) * 1.5).on_modes(0, 1)], "LossyInterferometer with singular value > 1"),
        ("GaussianSimulator", lambda: [pq.Vacuum(), pq.DeterministicGaussianChannel(X=np.identity(2), Y=-np.identity(2)).on_modes(0)], "unphysical Gaussian channel"),
        ("GaussianSimulator", lambda: [pq.Vacuum(), pq.GeneraldyneMeasurement(detection_covariance=np.identity(2) * 0.01).on_modes(0)], "detection covariance violating uncertainty"),
    ]
    sims_ = simulators(pq)
    for sname, mkprog, what in param_cases:
        err, prog = None, []
        try:
            prog = mkprog()
        except Exception as e:  # noqa
            err = e
        expect_reject(ctx, pq, f"param:{sname}:{what}", f"{what} on {sname}", sims_[sname][0](d=2, config=cfg), prog, all_traces, build_error=err)


def documented_support(ctx, pq, all_traces, cutoffs):
    from piquasso.api.exceptions import PiquassoException
    from piquasso.api.instruction import Instruction, Preparation, Measurement

    def walk(c, acc):
        for s_ in c.__subclasses__():
            if s_ not in acc:
                acc.append(s_)
                walk(s_, acc)
    allcls = []
    walk(Instruction, allcls)
    names = sorted({c.__name__ for c in allcls if not c.__name__.startswith("_") and (c.__module__.startswith("piquasso.instructions") or c.__module__.startswith("piquasso.fermionic"))})
    for sname, (S, prep, has_cutoff) in simulators(pq).items():
        doc = S.__doc__ or ""
        documented = {n.split(".")[-1] for n in re.findall(r":class:`~([\w\.]+)`", doc)}
        mapped = {c.__name__ for c in S(d=2)._instruction_map}
        for cname in names:
            if cname.startswith("Batch"):
                continue
            for d in (2, 3):
                ins = factory(pq, cname, d)
                if ins is None:
                    continue
                mk_ins = lambda c, cname=cname, d=d: factory(pq, cname, d, cutoff=c)    # noqa
                isprep, ismeas = isinstance(ins, Preparation), isinstance(ins, Measurement)
                if isprep:
                    prog = ([] if cname in ("Vacuum", "NumberState", "StateVector", "FockStateVector", "DensityMatrix", "DistinguishableNumberState", "Mean", "Covariance", "Thermal")
                            else [p(d) for p in prep]) + [ins]
                else:
                    prog = [p(d) for p in prep] + [ins]
                if cname in documented:
                    failing, last_exc = [], None
                    tried = [c for c in (cutoffs if has_cutoff else (6,))
                             if not (cname.startswith("Imperfect") and c != 3) and not (sname == "fermionic.PureFockSimulator" and c < 2)]
                    for c in tried:
                        cfg = pq.Config(cutoff=c, seed_sequence=5)
                        prog_c = [copy.copy(x) for x in prog[:-1]] + [mk_ins(c)]
                        if sname in ("PassiveSimulator", "fermionic.GaussianSimulator", "fermionic.PureFockSimulator") and not isprep:
                            prog_c = [p(d) for p in prep] + [mk_ins(c)]
                        status, exc, _, nsteps, tr = run_recorded(pq, S(d=d, config=cfg), prog_c)
                        all_traces += tr
                        ctx.case(("doc", sname, cname, d, c))
                        if status != "done":
                            failing.append(c)
                            last_exc = exc
                    if failing:
                        label = "any-cutoff" if len(failing) == len(tried) else f"cutoff<={max(failing)}"
                        ctx.report(f"C13:valid-refused:{sname}:{cname}:{label}:{type(last_exc).__name__}",
                                   f"{cname} is in the documented support of {sname} but a minimal program (d={d}, cutoffs {failing} of {tried}) raised {type(last_exc).__name__}: {str(last_exc)[:90]}",
                                   {"sim": sname, "instruction": cname, "d": d, "cutoffs_failing": failing})
                elif cname not in mapped:
                    status, exc, _, nsteps, tr = run_recorded(pq, S(d=d, config=pq.Config(cutoff=3)), [copy.copy(x) for x in prog])
                    all_traces += tr
                    ctx.case(("undoc", sname, cname, d))
                    if status == "done":
                        ctx.report(f"C13:accepted-invalid:unsupported:{sname}:{cname}", f"{cname} is not supported by {sname} but was executed", {"sim": sname, "instruction": cname})
                    elif not isinstance(exc, PiquassoException) or nsteps:
                        ctx.report(f"C13:reject-class:unsupported:{sname}:{cname}",
                                   f"unsupported {cname} on {sname}: {type(exc).__name__} after {nsteps} step(s)", {"sim": sname, "instruction": cname})


def run(ctx):
    import piquasso as pq
    quick = ctx.tier == "quick"
    if EC.model_check(ctx, "MCEngine_validate.cfg", **({} if quick else {"MaxLen": 3})) is None:
        return
    all_traces = []
    mutants(ctx, pq, all_traces)
    documented_support(ctx, pq, all_traces, cutoffs=(1, 2, 3, 4) if not quick else (1, 2, 3))
    ctx.notes["recorded_executions"] = len(all_traces)
    EC.validate_traces(ctx, "C13", all_traces, "mutants+support")
    # valid adaptive programs on every outcome history (forced): each behaviour that ends "done" in the spec must end "done" in the code
    behs = EC.export_behaviours(ctx, "MCEngine_shots.cfg", num=6 if quick else 60, seed=ctx.seed + 3, MaxShots=2)
    rec = EngineRecorder()
    n = 0
    for b in behs:
        if b["shots"] == 0:
            continue
        if EC.replay_behaviour(ctx, pq, b, rec, d=2, pid="C13", check_frame=False) == "ok":
            n += 1
    ctx.notes["forced_outcome_histories_replayed"] = n
    EC.validate_traces(ctx, "C13", rec.traces, "forced-histories")
    ctx.sample({"mutation": "repeated-mode", "example": "Beamsplitter.on_modes(0, 0)", "expected": "PiquassoException, zero simulation steps"})
    ctx.sample({"documented_support": "every class named in a simulator's docstring executes for cutoff 1.." + ("3" if quick else "4")})
    ctx.assumptions += ["documented support = :class: references in each simulator's docstring",
                        "bool shots (True) is an int in Python and not counted as non-integer"]
