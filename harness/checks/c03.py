"""C03 — shot accounting and the chain rule of measurement.

TLC checks ShotsConserved / NoneWeightsSumToOne / OutcomeLenMonotone on MCEngine exhaustively (all adaptive
programs with <=3 instructions on 2 modes, shots 1..3 and None, every split of shots among outcomes); random
behaviours are exported and replayed into PureFockSimulator with the sampler forced to the behaviour's
outcome counts (final branches, samples, counts must match); every execution is recorded and validated by
TLC against PqEngineTrace, as are natural executions of adaptive programs on all six simulators
(and, in the thorough tier, the repository's own measurement tests).
"""
import os
import subprocess
import sys
import json
import tempfile

from .. import engine_campaign as EC
from .. import engine_natural as EN
from ..recorder import EngineRecorder
from ..common import VERIF


def run(ctx):
    import piquasso as pq
    quick = ctx.tier == "quick"
    if EC.model_check(ctx, "MCEngine_shots.cfg", **({} if quick else {"MaxShots": 4})) is None:
        return
    ctx.notes["exhaustive_model"] = "MCEngine_shots: d=2, <=3 instructions, shots 1..%d and None" % (3 if quick else 4)
    # ---- spec -> code: forced replays
    behs = EC.export_behaviours(ctx, "MCEngine_shots.cfg", num=12 if quick else 120, seed=ctx.seed + 1, MaxShots=4)
    rec = EngineRecorder()
    n_ok = n_skip = 0
    for b in behs:
        if b["shots"] == 0:
            continue     # shots=None: nothing to force; covered by natural runs below
        r = EC.replay_behaviour(ctx, pq, b, rec, d=2, pid="C03", check_frame=False)
        if r == "skip":
            n_skip += 1
        else:
            n_ok += 1
    ctx.notes["behaviours_replayed"] = n_ok
    ctx.notes["behaviours_skipped_unrepresentable"] = n_skip
    if behs:
        ctx.sample({"behaviour": behs[len(behs) // 2]})
    EC.validate_traces(ctx, "C03", rec.traces, "forced-replay")
    # ---- code -> spec: natural runs on every simulator
    rec2 = EngineRecorder().install()
    try:
        n = EN.run_natural(pq, rec2, ctx.seed, per_family=24 if quick else 200)
    finally:
        rec2.uninstall()
    ctx.notes["natural_runs"] = n
    EC.validate_traces(ctx, "C03", rec2.traces, "natural")
    if rec2.traces:
        ctx.sample({"natural_trace_events": rec2.traces[0]["events"][:4]})
    binding_demonstration(ctx, rec2.traces)
    # ---- the repository's own tests, recorded by the pytest plugin (thorough)
    if not quick:
        traces = record_repo_tests(["tests/api", "tests/_simulators/fock/pure/test_measurements.py",
                                    "tests/_simulators/gaussian/test_measurements.py",
                                    "tests/_simulators/passive/test_measurements.py",
                                    "tests/fermionic/fock/test_measurements.py"])
        # tests/api drives the engine with test doubles (FakeSimulator, FakeMeasurement, ...) whose steps do not implement any semantics:
        # only executions of real piquasso simulators are inside the model
        real = {"PureFockSimulator", "FockSimulator", "GaussianSimulator", "PassiveSimulator", "SamplingSimulator"}
        ctx.notes["repo_test_traces"] = {"recorded": len(traces), "of_real_simulators": sum(1 for t in traces if t["meta"].get("sim") in real)}
        traces = [t for t in traces if t["meta"].get("sim") in real]
        EC.validate_traces(ctx, "C03", traces, "repo-tests")
    ctx.assumptions += ["physics abstracted at this level: branch weights/states are compared with exact values in the C01/C05 replays",
                        "recorder patch points (Simulator/Instruction methods) are the complete set of linearisation points"]


def binding_demonstration(ctx, traces):
    """The trace specification really constrains the recorded executions: accepted traces are corrupted in one field / one event and every
    corrupted copy must be REJECTED by TLC (vacuity guard of the trace validation; a corrupted trace that is accepted is a machinery failure)."""
    import copy
    import random as _r
    from .. import engine_traces as ET
    from ..common import MachineryError
    rng = _r.Random(ctx.seed + 33)
    res, _ = ET.validate(traces)
    good = [t for t, r in zip(traces, res) if r is None and len(t["events"]) >= 5]
    rng.shuffle(good)
    corrupted, kinds = [], []
    for t in good[:40]:
        steps = [i for i, e in enumerate(t["events"]) if e.get("e") == "step" and e.get("ok") and e.get("subs")]
        ends = [i for i, e in enumerate(t["events"]) if e.get("e") == "end"]
        c = copy.deepcopy(t)
        kind = rng.choice(["drop-step", "shots", "count", "end-samples"])
        if kind == "drop-step" and steps:
            del c["events"][rng.choice(steps)]
        elif kind == "shots" and steps and t["events"][0].get("shots", 0) > 0:
            i = rng.choice(steps)
            c["events"][i]["cur_shots"] = c["events"][i]["cur_shots"] + 1
        elif kind == "count" and steps and t["events"][0].get("shots", 0) > 0:          # counts are meaningless (and unconstrained) for shots=None
            i = rng.choice(steps)
            c["events"][i]["subs"][0]["k"] = c["events"][i]["subs"][0]["k"] + 1
        elif kind == "end-samples" and ends and t["events"][ends[0]].get("nsamples", -1) >= 0 and t["events"][ends[0]].get("status") == "ok":
            c["events"][ends[0]]["nsamples"] = c["events"][ends[0]]["nsamples"] + 1
        else:
            continue
        corrupted.append(c)
        kinds.append(kind)
    if not corrupted:
        ctx.notes["binding_demonstration"] = "no accepted trace long enough to corrupt"
        return
    res2, _ = ET.validate(corrupted)
    accepted = [k for k, r in zip(kinds, res2) if r is None]
    ctx.notes["binding_demonstration"] = {"corrupted_traces": len(corrupted), "rejected": len(corrupted) - len(accepted), "kinds": sorted(set(kinds))}
    if accepted:
        raise MachineryError(f"trace validation is vacuous: {len(accepted)} corrupted traces were accepted ({sorted(set(accepted))})")


def record_repo_tests(paths, timeout=3000):
    with tempfile.NamedTemporaryFile("w", suffix=".json", delete=False) as f:
        out = f.name
    env = dict(os.environ)
    env["VERIF_TRACE_OUT"] = out
    env["PYTHONPATH"] = str(VERIF) + os.pathsep + str(VERIF / "harness") + os.pathsep + env.get("PYTHONPATH", "")
    try:
        subprocess.run([sys.executable, "-m", "pytest", "-q", "-p", "no:cacheprovider", "-p", "verif_recorder", "-x", "--timeout=900"] + paths,
                       cwd=os.environ.get("VERIF_REPO", "/repo"), env=env, capture_output=True, text=True, timeout=timeout)
        try:
            return json.load(open(out))
        except Exception:
            return []
    finally:
        os.unlink(out)
