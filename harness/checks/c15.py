"""C15 — matrix decompositions reconstruct their input.

The technique of this task decides the INPUT side and the relations, not floating-point factorisations: PqDecomp.tla
(on PqGaussian) carries the accumulated ladder matrix of lattice programs and TLC proves on every reachable state that
it is symplectic, that it generates the state, that the anomalous block is symmetric, that passive programs have a
unitary passive block and that unitary programs give pure states.  Every reachable state is an exact, structured and
typically DEGENERATE input (equal squeezings of two-mode squeezers, permutation / block-diagonal / identity / one-mode
unitaries, pure covariances whose symplectic spectrum is hbar with full multiplicity, thermal ones); the decompositions
of the implementation are run on them and the defining relations of each decomposition are evaluated on the outputs:
  clements -> inverse_clements / instruction list / weight round trip reproduce the unitary,
  takagi: U unitary, s >= 0, U diag(s) U^T = A,
  williamson: S real symplectic, D positive diagonal paired per mode, S D S^T = sigma (and D = hbar I for pure states, exact),
  euler: unitary factors and squeezings recompose the symplectic matrix,
  graph embedding: the squeezings reach the requested mean photon number.
"""
import itertools
import random
import warnings

import numpy as np

from ..common import run_tlc, MachineryError
from .. import lattice as L
from .. import gaussian_replay as GR

CFG = """SPECIFICATION DSpec
CONSTANTS
  D = %d
  Gates <- GDef
  MaxDepth = %d
  HBars <- HDef
  Export = FALSE
  ExportDecomp = TRUE
INVARIANT DecompCheck
CONSTRAINT DecompConstraint
"""
TOL = 1e-8


def explore(ctx, d, gates, depth):
    mod = GR.spec_module("MCPG", d, gates, "").replace("EXTENDS PqGaussian", "EXTENDS PqDecomp")
    res = run_tlc("MCPG", "MCPG.cfg", generated={"MCPG.tla": mod, "MCPG.cfg": CFG % (d, depth)}, timeout=3000)
    if res.violated:
        ctx.report("spec:PqDecomp:" + ",".join(map(str, res.violated)), "PqDecomp violates its own theorem (oracle broken)", res.out[-2000:])
        return []
    if "Error:" in res.out:
        raise MachineryError("PqDecomp run failed:\n" + "\n".join(l for l in res.out.splitlines() if not l.startswith('<<"DECOMP"'))[-2500:])
    ctx.add_tlc(res)
    out, seen = [], set()
    for r in res.records("DECOMP"):
        k = tuple(r["hist"])
        if k not in seen:
            seen.add(k)
            out.append(r)
    return out


def cmat(M):
    return np.array([[GR.qv(x) for x in row] for row in M], dtype=complex)


def is_unitary(U):
    return np.abs(U @ U.conj().T - np.identity(len(U))).max() < TOL


def check_takagi(ctx, conn, A, tag, replay):
    from piquasso._math.decompositions import takagi
    try:
        s, U = takagi(np.array(A, dtype=complex), conn)
        s, U = np.asarray(s), np.asarray(U)
    except Exception as e:  # noqa
        return ctx.report(f"C15:takagi:raises:{type(e).__name__}:{tag}", f"takagi raised {type(e).__name__}: {str(e)[:100]} on a {tag} symmetric matrix", replay)
    scale = max(1.0, np.abs(A).max())
    if np.abs(np.imag(s)).max() > TOL or np.real(s).min() < -TOL:
        return ctx.report(f"C15:takagi:values:{tag}", f"takagi returned values that are not non-negative reals: {np.round(s, 6)}", replay)
    if not is_unitary(U):
        return ctx.report(f"C15:takagi:unitary:{tag}", f"takagi's U is not unitary on a {tag} symmetric matrix (max deviation {np.abs(U @ U.conj().T - np.identity(len(U))).max():.3g})", replay)
    if np.abs(U @ np.diag(s) @ U.T - A).max() > TOL * scale:
        return ctx.report(f"C15:takagi:reconstruction:{tag}", f"U diag(s) U^T differs from the {tag} symmetric input by {np.abs(U @ np.diag(s) @ U.T - A).max():.3g} (s = {np.round(np.real(s), 6)})", replay)
    return False


def check_williamson(ctx, conn, cov, hbar, pure, tag, replay):
    from piquasso._math.decompositions import williamson
    from piquasso._math.symplectic import xp_symplectic_form
    d = len(cov) // 2
    try:
        S, Dm = williamson(np.array(cov, dtype=float), conn)
        S, Dm = np.asarray(S), np.asarray(Dm)
    except Exception as e:  # noqa
        return ctx.report(f"C15:williamson:raises:{type(e).__name__}:{tag}", f"williamson raised {type(e).__name__}: {str(e)[:100]} on a {tag} covariance", replay)
    scale = max(1.0, np.abs(cov).max())
    om = np.asarray(xp_symplectic_form(d))
    if True:
        if np.abs(np.imag(S)).max() > TOL or np.abs(S @ om @ S.T - om).max() > 1e-7 * scale:
            return ctx.report(f"C15:williamson:symplectic:{tag}", f"williamson's S is not a real symplectic matrix on a {tag} covariance", replay)
    dg = np.diag(Dm)
    if np.abs(Dm - np.diag(dg)).max() > TOL * scale or dg.min() <= 0:
        return ctx.report(f"C15:williamson:diagonal:{tag}", f"williamson's D is not a positive diagonal matrix: diag {np.round(dg, 6)}", replay)
    if np.abs(dg[:d] - dg[d:]).max() > 1e-7 * scale:
        return ctx.report(f"C15:williamson:pairing:{tag}", f"williamson's D is not paired per mode: diag {np.round(dg, 6)}", replay)
    if np.abs(S @ Dm @ S.T - cov).max() > 1e-7 * scale:
        return ctx.report(f"C15:williamson:reconstruction:{tag}", f"S D S^T differs from the {tag} covariance by {np.abs(S @ Dm @ S.T - cov).max():.3g}", replay)
    if pure and np.abs(dg - hbar).max() > 1e-7 * scale:
        return ctx.report(f"C15:williamson:pure-spectrum:{tag}", f"pure state (exact): symplectic spectrum must be hbar = {hbar} with full multiplicity, got {np.round(dg, 6)}", replay)
    return False


def check_euler(ctx, conn, S, tag, replay):
    from piquasso._math.decompositions import euler
    d = len(S) // 2
    try:
        U_last, sq, U_first = euler(np.array(S, dtype=complex), conn)
        U_last, sq, U_first = np.asarray(U_last), np.real(np.asarray(sq)), np.asarray(U_first)
    except Exception as e:  # noqa
        return ctx.report(f"C15:euler:raises:{type(e).__name__}:{tag}", f"euler raised {type(e).__name__}: {str(e)[:100]} on a {tag} symplectic matrix", replay)
    if not (is_unitary(U_last) and is_unitary(U_first)):
        return ctx.report(f"C15:euler:unitary:{tag}", f"euler's passive factors are not unitary on a {tag} symplectic matrix", replay)

    def pas(U):
        return np.block([[U, np.zeros((d, d))], [np.zeros((d, d)), U.conj()]])
    # documented single-mode squeezing with phi = 0: a -> cosh(r) a - sinh(r) a^dagger  (the implementation applies Squeezing(r_i, phi=0))
    c, s = np.diag(np.cosh(sq)), np.diag(np.sinh(sq))
    rec = pas(U_last) @ np.block([[c, -s], [-s, c]]) @ pas(U_first)
    scale = max(1.0, np.abs(S).max())
    if np.abs(rec - S).max() > 1e-7 * scale:
        return ctx.report(f"C15:euler:reconstruction:{tag}", f"passive(U_last) squeeze(r) passive(U_first) differs from the {tag} symplectic matrix by {np.abs(rec - S).max():.3g} "
                          f"(r = {np.round(sq, 6)})", replay)
    return False


def check_clements(ctx, pq, conn, U, tag, replay):
    from piquasso.decompositions import clements as C
    d = len(U)
    U = np.array(U, dtype=complex)
    scale = 1.0
    try:
        dec = C.clements(U, conn)
        back = np.asarray(C.inverse_clements(dec, conn, dtype=np.complex128))
    except TypeError:
        back = np.asarray(C.inverse_clements(dec, conn))
    except Exception as e:  # noqa
        return ctx.report(f"C15:clements:raises:{type(e).__name__}:{tag}", f"clements / inverse_clements raised {type(e).__name__}: {str(e)[:100]} on a {tag} unitary", replay)
    if np.abs(back - U).max() > 1e-7 * scale:
        return ctx.report(f"C15:clements:inverse:{tag}", f"inverse_clements(clements(U)) differs from the {tag} unitary by {np.abs(back - U).max():.3g}", replay)
    try:
        ins = C.instructions_from_decomposition(dec)
        with warnings.catch_warnings():
            warnings.simplefilter("ignore")
            st = pq.PassiveSimulator(d=d).execute(pq.Program(instructions=[pq.NumberState([1] + [0] * (d - 1)).on_modes(*range(d))] + list(ins))).state
        got = np.asarray(st.interferometer)
        if np.abs(got - U).max() > 1e-7:
            return ctx.report(f"C15:clements:instructions:{tag}", f"the instruction list of the Clements decomposition implements a different unitary on a {tag} input (max deviation {np.abs(got - U).max():.3g})", replay)
    except Exception as e:  # noqa
        return ctx.report(f"C15:clements:instructions-raises:{type(e).__name__}:{tag}", f"instructions_from_decomposition raised {type(e).__name__}: {str(e)[:100]}", replay)
    try:
        w = C.get_weights_from_interferometer(U, conn)
        U2 = np.asarray(C.get_interferometer_from_weights(w, d, conn, np.complex128))
        if np.abs(U2 - U).max() > 1e-7:
            return ctx.report(f"C15:clements:weights:{tag}", f"the weight-vector round trip does not reproduce the {tag} unitary (max deviation {np.abs(U2 - U).max():.3g})", replay)
    except TypeError as e:
        ctx.notes.setdefault("clements_weights_signature", str(e)[:120])
    except Exception as e:  # noqa
        return ctx.report(f"C15:clements:weights-raises:{type(e).__name__}:{tag}", f"weight round trip raised {type(e).__name__}: {str(e)[:100]}", replay)
    return False


def structure_tag(names, extra=""):
    kinds = sorted({n.split("(")[0] for n in names})
    return ("+".join(kinds) or "identity") + extra


def run(ctx):
    import piquasso as pq
    from piquasso._math.decompositions import decompose_adjacency_matrix_into_circuit
    quick = ctx.tier == "quick"
    rng = random.Random(ctx.seed + 15)
    conn = pq.NumpyConnector()
    ctx.level = "exploration"
    ctx.rule = ("inputs are the reachable states of PqDecomp.tla enumerated exhaustively by TLC to the stated depth over a sampled lattice gate catalogue (plus permutation / diagonal / "
                "block-diagonal unitaries and all graphs on <= 4 vertices); a case is distinct by (dimension, gate sequence or matrix); non-trivial = at least one gate applied")
    counters = ctx.notes.setdefault("counters", {"states": 0, "clements": 0, "takagi": 0, "williamson": 0, "euler": 0, "graphs": 0})
    plans = [(1, 6, 2), (2, 9, 2), (3, 6, 2)] if quick else [(1, 10, 3), (2, 16, 3), (3, 12, 3)]
    for (d, ng, depth) in plans:
        gates = L.gaussian_catalogue(d, rng=rng, size=ng)
        recs = explore(ctx, d, gates, depth)
        ctx.notes.setdefault("explorations", []).append({"d": d, "gates": [g["name"] + str(g["modes"]) for g in gates], "depth": depth, "states_exported": len(recs)})
        if len(recs) > (80 if quick else 2000):
            recs = rng.sample(recs, 80 if quick else 2000)
        perm = GR.xxpp_to_xpxp_perm(d)
        for rec in recs:
            names = [gates[i - 1]["name"] + str(gates[i - 1]["modes"]) for i in rec["hist"]]
            S = cmat(rec["Stot"])
            A = cmat(rec["anomalous"])
            cov_xxpp = cmat(rec["cov"]).real
            hbar = rec["hbar"][0] / rec["hbar"][1]
            cov = cov_xxpp[np.ix_(perm, perm)]           # xpxp ordering, as the simulator hands it to williamson
            tag = structure_tag(names)
            replay = {"gates": names, "d": d}
            counters["states"] += 1
            ctx.case((d, tuple(names)), nontrivial=len(names) > 0)
            bad = False
            with warnings.catch_warnings():
                warnings.simplefilter("ignore")
                bad |= bool(check_takagi(ctx, conn, A, tag, replay))
                counters["takagi"] += 1
                if not any(gates[i - 1]["alpha"] != [L.Q0] * len(gates[i - 1]["modes"]) and False for i in rec["hist"]):
                    bad |= bool(check_euler(ctx, conn, S, tag, replay))
                    counters["euler"] += 1
                # williamson works in the xxpp ordering (its symplectic form is [[0, 1], [-1, 0]]), as its callers hand it
                bad |= bool(check_williamson(ctx, conn, cov_xxpp, hbar, not rec["mixed"], tag, replay))
                counters["williamson"] += 1
                if rec["passive"] and not rec["mixed"]:
                    bad |= bool(check_clements(ctx, pq, conn, S[:d, :d], tag, replay))
                    counters["clements"] += 1
            if not bad:
                ctx.validated()
                if len(names) >= 2:
                    ctx.sample({"gates": names, "d": d, "pure": not rec["mixed"], "passive": rec["passive"], "exact_anomalous_moments_row1": rec["anomalous"][0]}, limit=3)
    # structured unitaries that no short lattice program reaches: permutations, block-diagonal and diagonal matrices
    for d in (1, 2, 3, 4, 5):
        mats = [("identity", np.identity(d, dtype=complex))]
        allp = list(itertools.permutations(range(d)))
        chosen = allp if (not quick or len(allp) <= 24) else allp[:6] + rng.sample(allp, 14)
        if d == 5:      # the 5-cycles whose symmetrisation has two repeated singular values (0.809, 0.809, 0.309, 0.309)
            chosen = list(chosen) + [(1, 3, 0, 4, 2), (2, 0, 4, 1, 3), (3, 4, 1, 2, 0), (4, 2, 1, 0, 3)]
        for p in chosen:
            mats.append(("permutation", np.identity(d, dtype=complex)[list(p)]))
        mats.append(("diagonal", np.diag(np.exp(1j * np.pi / 4 * np.arange(d)))))
        if d >= 3:
            blk = np.identity(d, dtype=complex)
            blk[:2, :2] = np.array([[3, 4j], [4j, 3]]) / 5
            mats.append(("block-diagonal", blk))
        for tag, U in mats:
            ctx.case((d, tag, U.tobytes()))
            with warnings.catch_warnings():
                warnings.simplefilter("ignore")
                if not check_clements(ctx, pq, conn, U, tag, {"unitary": tag, "d": d}):
                    ctx.validated()
                counters["clements"] += 1
                # the same matrices, symmetrised, as degenerate Takagi inputs (repeated and zero singular values)
                Asym = (U + U.T) / 2
                check_takagi(ctx, conn, Asym, tag + "-symmetrised", {"matrix": tag, "d": d})
                counters["takagi"] += 1
    # graph embedding: every graph on up to 4 vertices (adjacency matrices with repeated and zero singular values)
    for nv in (2, 3, 4):
        edges = list(itertools.combinations(range(nv), 2))
        masks = range(1, 2 ** len(edges))
        for mask in (masks if not quick else rng.sample(list(masks), min(12, len(masks)))):
            adj = np.zeros((nv, nv))
            for k, (a, b) in enumerate(edges):
                if mask >> k & 1:
                    adj[a, b] = adj[b, a] = 1.0
            for mpn in (0.5, 1.0, 2.0):
                ctx.case((nv, mask, mpn))
                counters["graphs"] += 1
                try:
                    with warnings.catch_warnings():
                        warnings.simplefilter("ignore")
                        rs, U = decompose_adjacency_matrix_into_circuit(adj, mpn, conn)
                    got = float(np.sum(np.sinh(np.asarray(rs)) ** 2) / len(rs))
                    if abs(got - mpn) > 1e-6:
                        ctx.report("C15:graph:mean-photon-number", f"graph embedding of the graph {mask:b} on {nv} vertices reaches mean photon number {got:.6f} per mode, requested {mpn}", {"adjacency": adj.tolist(), "mean_photon_number": mpn})
                    else:
                        ctx.validated()
                except Exception as e:  # noqa
                    ctx.report(f"C15:graph:raises:{type(e).__name__}", f"graph embedding raised {type(e).__name__}: {str(e)[:100]} for the graph {mask:b} on {nv} vertices", {"adjacency": adj.tolist(), "mean_photon_number": mpn})
    ctx.assumptions += ["reconstruction relations are evaluated in double precision (1e-7 relative); the specification provides exact structured inputs and the exact purity / symplecticity facts, not the factorisations"]
