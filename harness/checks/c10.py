"""C10 — automatic derivatives equal the true derivatives.

PqOpticsGrad.tla is the exact tangent semantics of PqOptics: the derivative of the state with respect to one parameter
of one gate is obtained by substituting the derivative of the documented one-particle matrix (again a lattice matrix)
at that gate.  TLC checks Re<psi|dpsi> = 0 on every behaviour and exports state and tangent; the exact derivative of
every Fock probability, 2 Re(conj(a_v) da_v), is compared with
  * the Jacobian obtained through the TensorFlow connector (GradientTape, eager and inside tf.function),
  * the Jacobian obtained through the JAX connector (jax.jacfwd / jax.jacrev, eager and under jax.jit),
  * central finite differences of the NumPy simulation (the property's own oracle; also guards the derivative matrices).
The permanent exposed to JAX: d perm(A) / dA_ij is the permanent of the minor (MatrixFunctions.tla's definition);
for integer matrices with multiplicities the exact gradient is computed from that definition and compared with jax.grad.
"""
import itertools
import math
import random
import re
import warnings

import numpy as np

from ..common import run_tlc, MachineryError
from .. import lattice as L
from .. import optics_replay as OR

CFG = """SPECIFICATION GSpec
CONSTANTS
  D = %d
  Inputs <- InDef
  Gates <- GDef
  Losses <- LDef
  MeasSets <- MDef
  Perm <- PDef
  CommuteDepth = 0
  MaxDepth = %d
  Measure = FALSE
  Export = FALSE
  DGates <- DGDef
  ExportGrad = TRUE
INVARIANT GCheck
"""


def explore(ctx, d, gates, inputs, depth):
    mod = OR.spec_module("MCG", d, gates, inputs, extra_defs="DGDef == << " + ",\n ".join(L.dgate_record(g) for g in gates) + " >>").replace("EXTENDS PqOptics", "EXTENDS PqOpticsGrad")
    res = run_tlc("MCG", "MCG.cfg", generated={"MCG.tla": mod, "MCG.cfg": CFG % (d, depth)}, timeout=3000)
    if res.violated:
        ctx.report("spec:PqOpticsGrad:" + ",".join(map(str, res.violated)), "PqOpticsGrad violates its own theorem (oracle broken)", res.out[-2000:])
        return []
    if "Error:" in res.out:
        raise MachineryError("PqOpticsGrad run failed:\n" + "\n".join(l for l in res.out.splitlines() if not l.startswith('<<"GRAD"'))[-2500:])
    ctx.add_tlc(res)
    out, seen = [], set()
    for r in res.records("GRAD"):
        key = (repr(r["hist"]), tuple(r["marked"]))
        if key not in seen:
            seen.add(key)
            out.append(r)
    return out


def decode(rec):
    den = (L.SQ2 ** rec["e2"]) * (5.0 ** rec["e5"]) * math.sqrt(rec["nfn"])

    def amps(terms):
        out = {}
        if isinstance(terms, list):
            return out
        for k, r in terms.items():
            vec = tuple(int(x) for x in re.findall(r"-?\d+", k))
            out[vec] = L.ring_to_complex(r) * math.sqrt(math.prod(math.factorial(x) for x in vec)) / den
        return out
    a, da = amps(rec["terms"]), amps(rec["dterms"])
    inp = tuple(rec["hist"][0]["input"])
    idx = [h["gate"] - 1 for h in rec["hist"][1:]]
    step, gi, pk = rec["marked"]
    return inp, idx, step - 1, pk - 1, a, da


def program(pq, d, gates, inp, idx, marked_step, pname, value):
    """instructions with the marked gate's parameter replaced by `value` (a tensor / tracer / float)"""
    ins = [pq.NumberState(inp).on_modes(*range(d))]
    for s, i in enumerate(idx):
        g = gates[i]
        if s == marked_step:
            params = dict(g["params"])
            params[pname] = value
            ins.append(getattr(pq, g["cls"])(**params).on_modes(*g["modes"]))
        else:
            ins.append(g["mk"](pq).on_modes(*g["modes"]))
    return ins


def part_passive_gates(ctx, pq, quick, rng):
    import tensorflow as tf
    import jax
    import jax.numpy as jnp
    jax.config.update("jax_enable_x64", True)
    from piquasso._math.fock import get_fock_space_basis
    counters = ctx.notes.setdefault("passive_gates", {"behaviours": 0, "tf": 0, "tf.function": 0, "jax": 0, "jax.jit": 0, "finite_difference": 0})
    plans = [(2, 6, 3, 2), (3, 5, 2, 2)] if quick else [(2, 12, 5, 3), (3, 10, 4, 3)]
    for (d, ng, nin, depth) in plans:
        cat = [g for g in L.passive_catalogue(d) if g.get("dM") is not None or g["diag"] or g["kind"] == "lin"]
        diff = [g for g in cat if g.get("dM")]
        gates = rng.sample(diff, min(len(diff), ng - 2)) + rng.sample([g for g in cat if not g.get("dM")], 2)
        inputs = L.inputs(d, 3, rng=rng, size=nin)
        recs = explore(ctx, d, gates, inputs, depth)
        ctx.notes.setdefault("explorations", []).append({"d": d, "gates": [g["name"] + str(g["modes"]) for g in gates], "inputs": inputs, "depth": depth, "tangents_exported": len(recs)})
        cap = 36 if quick else 220
        if len(recs) > cap:
            recs = rng.sample(recs, cap)
        for k, rec in enumerate(recs):
            inp, idx, mstep, pk, amp, damp = decode(rec)
            n = sum(inp)
            g = gates[idx[mstep]]
            pname = g["dM"][pk][0]
            p0 = g["params"][pname]
            name = [gates[i]["name"] + str(gates[i]["modes"]) for i in idx]
            basis = [tuple(int(x) for x in b) for b in get_fock_space_basis(d=d, cutoff=n + 1)]
            exact = np.array([2.0 * (np.conj(amp.get(v, 0.0)) * damp.get(v, 0.0)).real for v in basis])
            replay = {"input": inp, "gates": name, "parameter": f"{pname} of gate {mstep + 1}", "exact_dP": {str(v): round(x, 9) for v, x in zip(basis, exact) if abs(x) > 1e-12}}
            sig = f"{g['cls']}.{pname}:" + "/".join(sorted({x.split('(')[0] for x in name}))
            ctx.case((inp, tuple(name), mstep, pname), nontrivial=np.abs(exact).max() > 1e-12)
            counters["behaviours"] += 1
            ok = True

            def judge(kind, jac):
                nonlocal ok
                jac = np.asarray(jac, dtype=float).reshape(-1)
                if jac.shape != exact.shape or np.abs(jac - exact).max() > 1e-7:
                    j = int(np.argmax(np.abs(jac - exact))) if jac.shape == exact.shape else 0
                    ctx.report(f"C10:{kind}:fock_probabilities:{sig}", f"{kind}: d P{basis[j]} / d {pname} (gate {mstep + 1} of {name} on {inp}) = {jac[j] if jac.shape == exact.shape else 'shape'}, "
                               f"exact {exact[j]:.9f}", replay)
                    ok = False
                counters[kind] += 1
            with warnings.catch_warnings():
                warnings.simplefilter("ignore")
                # the property's own oracle: finite differences of the NumPy simulation
                h = 1e-5

                def npprobs(x):
                    st = pq.PureFockSimulator(d=d, config=pq.Config(cutoff=n + 1)).execute(pq.Program(instructions=program(pq, d, gates, inp, idx, mstep, pname, x))).state
                    return np.asarray(st.fock_probabilities)
                fd = (npprobs(p0 + h) - npprobs(p0 - h)) / (2 * h)
                if np.abs(fd - exact).max() > 1e-6:
                    raise MachineryError(f"finite differences of the NumPy simulation disagree with the exact tangent for {name} / {pname}: oracle or lattice derivative broken "
                                         f"({np.abs(fd - exact).max():.3g})")
                counters["finite_difference"] += 1
                # TensorFlow
                try:
                    def tfprobs(x):
                        sim = pq.PureFockSimulator(d=d, config=pq.Config(cutoff=n + 1), connector=pq.TensorflowConnector())
                        return sim.execute(pq.Program(instructions=program(pq, d, gates, inp, idx, mstep, pname, x))).state.fock_probabilities
                    x = tf.Variable(p0, dtype=tf.float64)
                    with tf.GradientTape() as tape:
                        pr = tfprobs(x)
                    judge("tf", tape.jacobian(pr, x))
                    if k % 6 == 0:
                        @tf.function
                        def jac_fn(xx):
                            with tf.GradientTape() as t2:
                                t2.watch(xx)
                                pp = tfprobs(xx)
                            return t2.jacobian(pp, xx)
                        judge("tf.function", jac_fn(tf.constant(p0, dtype=tf.float64)))
                except MachineryError:
                    raise
                except Exception as e:  # noqa  -- no derivative is obtained (e.g. a gate that tf.function cannot trace): nothing to compare, counted
                    ctx.notes.setdefault("derivative_not_obtainable", {}).setdefault(f"tf:{type(e).__name__}:{g['cls']}", 0)
                    ctx.notes["derivative_not_obtainable"][f"tf:{type(e).__name__}:{g['cls']}"] += 1
                # JAX
                try:
                    def jxprobs(x):
                        sim = pq.PureFockSimulator(d=d, config=pq.Config(cutoff=n + 1), connector=pq.JaxConnector())
                        return sim.execute(pq.Program(instructions=program(pq, d, gates, inp, idx, mstep, pname, x))).state.fock_probabilities
                    judge("jax", jax.jacfwd(jxprobs)(jnp.asarray(p0, dtype=jnp.float64)) if k % 2 else jax.jacrev(jxprobs)(jnp.asarray(p0, dtype=jnp.float64)))
                    if k % 6 == 0:
                        judge("jax.jit", jax.jit(jax.jacrev(jxprobs))(jnp.asarray(p0, dtype=jnp.float64)))
                except Exception as e:  # noqa
                    ctx.notes.setdefault("derivative_not_obtainable", {}).setdefault(f"jax:{type(e).__name__}:{g['cls']}", 0)
                    ctx.notes["derivative_not_obtainable"][f"jax:{type(e).__name__}:{g['cls']}"] += 1
            if ok:
                ctx.validated()
                if np.abs(exact).max() > 1e-12:
                    ctx.sample(replay, limit=3)


def part_active_gates(ctx, pq, quick, rng):
    """Gates without an exact lattice tangent (Fock-space displacement, squeezing, ... with hand-written gradient rules): the programs are
    still TLC behaviours of PqGaussian (lattice parameters, every ordered mode tuple), executed on a number-state input; the oracle is the one
    the property itself names -- central finite differences of the NumPy simulation at the same cutoff.  Jacobians (symbolic upstream
    gradient) and gradients (concrete upstream) through TensorFlow, jacrev through JAX."""
    import tensorflow as tf
    import jax
    import jax.numpy as jnp
    from .. import gaussian_replay as GR
    from . import c09
    counters = ctx.notes.setdefault("active_gates", {"programs": 0, "tf.jacobian": 0, "tf.gradient": 0, "jax": 0, "unsupported": 0})
    for d, depth, cutoff, nprog in ((2, 2, 6, 8 if quick else 36), (3, 3, 5, 8 if quick else 36)):
        cat = [g for g in L.gaussian_catalogue(d) if not g.get("chan")]
        act = [g for g in cat if not g["passive"]]
        pas = [g for g in cat if g["passive"]]
        gates = rng.sample(act, 4) + rng.sample(pas, 2)
        recs = [r for r in GR.explore(ctx, d, gates, depth) if len(r["hist"]) == depth]
        recs = rng.sample(recs, min(nprog, len(recs)))
        inputs = [v for v in L.inputs(d, 2) if sum(v) >= 1]
        for k, rec in enumerate(recs):
            idx = [i - 1 for i in rec["hist"]]
            names = [gates[i]["name"] + str(gates[i]["modes"]) for i in idx]
            inp = rng.choice(inputs)
            with warnings.catch_warnings():
                warnings.simplefilter("ignore")
                base = [pq.NumberState(inp).on_modes(*range(d))] + [c09.instr(pq, gates[i]) for i in idx]
                # mark one real scalar parameter of one gate, preferably not the last gate (so that later gates back-propagate through their rules)
                cands = [(s_, pn, pv) for s_, ins_ in enumerate(base) for pn, pv in c09.scalar_params(ins_) if s_ > 0]
                if not cands:
                    continue
                mstep, pname, p0 = cands[k % len(cands)]

                def prog(x):
                    out = list(base)
                    params = dict(base[mstep].params)
                    params[pname] = x
                    out[mstep] = type(base[mstep])(**params).on_modes(*base[mstep].modes)
                    return pq.Program(instructions=out)

                def run(conn, x):
                    return pq.PureFockSimulator(d=d, config=pq.Config(cutoff=cutoff), connector=conn).execute(prog(x)).state.fock_probabilities
                sig = f"{type(base[mstep]).__name__}.{pname}:" + "/".join(sorted({x_.split('(')[0] for x_ in names}))
                replay = {"input": inp, "gates": names, "parameter": f"{pname} of gate {mstep}", "cutoff": cutoff}
                ctx.case((inp, tuple(names), mstep, pname, cutoff))
                counters["programs"] += 1
                try:
                    h = 1e-5
                    fd = (np.asarray(run(pq.NumpyConnector(), p0 + h)) - np.asarray(run(pq.NumpyConnector(), p0 - h))) / (2 * h)
                except Exception:
                    counters["unsupported"] += 1
                    continue
                w = np.cos(np.arange(len(fd)) * 0.7 + 0.3)        # a fixed weighting for the scalar objective
                ok = True

                def judge(kind, got, exp):
                    nonlocal ok
                    got = np.asarray(got, dtype=float).reshape(-1)
                    exp = np.asarray(exp, dtype=float).reshape(-1)
                    if got.shape != exp.shape or np.abs(got - exp).max() > 2e-6 * max(1.0, np.abs(exp).max()):
                        ctx.report(f"C10:active:{kind}:{sig}", f"{kind}: derivative of the Fock probabilities with respect to {pname} of gate {mstep} of {names} on {inp} (cutoff {cutoff}) differs from "
                                   f"finite differences of the NumPy simulation by {np.abs(got - exp).max() if got.shape == exp.shape else 'shape'}", replay)
                        ok = False
                    counters[kind] += 1
                # Gates applied through the Bloch-Messiah split are truncated slightly differently by each connector (see C09), so the derivative of
                # a connector's result is compared with finite differences of the SAME connector's forward pass; where the forward passes agree
                # with NumPy to 1e-9 this is the property's oracle itself, and the NumPy differences are used
                def fd_of(conn_factory):
                    f1, f0 = np.asarray(run(conn_factory(), p0 + h)), np.asarray(run(conn_factory(), p0 - h))
                    own = (f1 - f0) / (2 * h)
                    return fd if np.abs(own - fd).max() < 1e-7 else own
                try:
                    fd_tf = fd_of(pq.TensorflowConnector)
                    x = tf.Variable(p0, dtype=tf.float64)
                    with tf.GradientTape(persistent=True) as tape:
                        pr = run(pq.TensorflowConnector(), x)
                        obj = tf.reduce_sum(pr * tf.constant(w, dtype=pr.dtype))
                    judge("tf.jacobian", tape.jacobian(pr, x), fd_tf)
                    judge("tf.gradient", tape.gradient(obj, x), np.dot(fd_tf, w))
                except Exception as e:  # noqa  -- no derivative obtained: counted, not judged
                    k_ = f"tf:{type(e).__name__}:{type(base[mstep]).__name__}"
                    ctx.notes.setdefault("derivative_not_obtainable", {})[k_] = ctx.notes.setdefault("derivative_not_obtainable", {}).get(k_, 0) + 1
                try:
                    judge("jax", jax.jacrev(lambda xx: run(pq.JaxConnector(), xx))(jnp.asarray(p0, dtype=jnp.float64)), fd_of(pq.JaxConnector))
                except Exception as e:  # noqa  -- e.g. "Differentiation rule for 'schur' not implemented": no derivative obtained
                    k_ = f"jax:{type(e).__name__}:{type(base[mstep]).__name__}"
                    ctx.notes.setdefault("derivative_not_obtainable", {})[k_] = ctx.notes.setdefault("derivative_not_obtainable", {}).get(k_, 0) + 1
                if ok:
                    ctx.validated()


GCFG = """SPECIFICATION GSpec
CONSTANTS
  D = %d
  Gates <- GDef
  MaxDepth = %d
  HBars <- HDef
  Export = FALSE
  DGates <- DGDef
  ExportGrad = TRUE
INVARIANT GGCheck
"""


def part_gaussian_tangent(ctx, pq, quick, rng):
    """PqGaussianGrad: exact tangent of mean, covariance and mean photon numbers of lattice Gaussian programs with respect to one gate
    parameter (squeezing r / phi, two-mode squeezing, displacement, quadratic phase, controlled-X / Z, beamsplitter, phaseshifter) against
    jax.jacfwd / jacrev through GaussianSimulator with the JAX connector, and against finite differences of the NumPy simulation."""
    import jax
    import jax.numpy as jnp
    jax.config.update("jax_enable_x64", True)
    from .. import gaussian_replay as GR
    counters = ctx.notes.setdefault("gaussian_tangent", {"tangents": 0, "jax": 0, "finite_difference": 0, "not_obtainable": 0})
    for d, depth, ng in ((2, 2, 7), (3, 2, 6)) if quick else ((2, 3, 9), (3, 3, 8)):
        cat = [g for g in L.gaussian_catalogue(d) if not g.get("chan")]
        gates = rng.sample([g for g in cat if g.get("dG")], ng - 1) + rng.sample([g for g in cat if not g.get("dG")], 1)
        extra = "DGDef == << " + ",\n ".join(L.dgauss_record(g) for g in gates) + " >>"
        mod = GR.spec_module("MCPG", d, gates, extra).replace("EXTENDS PqGaussian", "EXTENDS PqGaussianGrad")
        res = run_tlc("MCPG", "MCPG.cfg", generated={"MCPG.tla": mod, "MCPG.cfg": GCFG % (d, depth)}, timeout=3000)
        if res.violated:
            ctx.report("spec:PqGaussianGrad:" + ",".join(map(str, res.violated)), "PqGaussianGrad violates its own theorem (oracle broken)", res.out[-2000:])
            continue
        if "Error:" in res.out:
            raise MachineryError("PqGaussianGrad run failed:\n" + "\n".join(l for l in res.out.splitlines() if not l.startswith('<<"GGRAD"'))[-2500:])
        ctx.add_tlc(res)
        recs, seen = [], set()
        for r in res.records("GGRAD"):
            k = (tuple(r["hist"]), tuple(r["marked"]))
            if k not in seen:
                seen.add(k)
                recs.append(r)
        cap = 30 if quick else 200
        if len(recs) > cap:
            recs = rng.sample(recs, cap)
        perm = GR.xxpp_to_xpxp_perm(d)
        for rec in recs:
            idx = [i - 1 for i in rec["hist"]]
            mstep, gi, pk = rec["marked"]
            mstep -= 1
            g = gates[idx[mstep]]
            pname = g["dG"][pk - 1][0]
            p0 = g["params"][pname]
            names = [gates[i]["name"] + str(gates[i]["modes"]) for i in idx]
            hb = rng.choice(L.HBARS)
            hbar = hb[4]
            rep = next(x for x in rec["reps"] if abs(x["hbar"][0] / x["hbar"][1] - hbar) < 1e-12)
            dmean = np.array([GR.qv(x) for x in rep["dmean"]]).real
            dcov = np.array([[GR.qv(x) for x in row] for row in rep["dcov"]]).real
            exact = np.concatenate([dmean, dcov.reshape(-1)])
            sig = f"{g['cls']}.{pname}:" + "/".join(sorted({x.split('(')[0] for x in names}))
            replay = {"gates": names, "parameter": f"{pname} of gate {mstep + 1}", "hbar": hbar}
            ctx.case((tuple(names), mstep, pname, hbar), nontrivial=np.abs(exact).max() > 1e-12)
            counters["tangents"] += 1

            def moments(conn, x):
                ins = [pq.Vacuum()]
                for s_, i in enumerate(idx):
                    gg = gates[i]
                    if s_ == mstep:
                        params = dict(gg["params"])
                        params[pname] = x
                        ins.append(getattr(pq, gg["cls"])(**params).on_modes(*gg["modes"]))
                    else:
                        ins.append(gg["mk"](pq).on_modes(*gg["modes"]))
                st = pq.GaussianSimulator(d=d, config=pq.Config(hbar=hbar), connector=conn).execute(pq.Program(instructions=ins)).state
                return st.xxpp_mean_vector, st.xxpp_covariance_matrix
            scale = max(1.0, np.abs(exact).max())
            with warnings.catch_warnings():
                warnings.simplefilter("ignore")
                h = 1e-6
                mp, cp = moments(pq.NumpyConnector(), p0 + h)
                mm, cm = moments(pq.NumpyConnector(), p0 - h)
                fd = np.concatenate([(np.asarray(mp) - np.asarray(mm)) / (2 * h), ((np.asarray(cp) - np.asarray(cm)) / (2 * h)).reshape(-1)])
                if np.abs(fd - exact).max() > 1e-5 * scale:
                    ctx.report(f"C10:gaussian:finite-difference:{sig}", f"finite differences of the NumPy GaussianSimulator with respect to {pname} of gate {mstep + 1} of {names} (hbar {hbar}) differ from the "
                               f"exact tangent by {np.abs(fd - exact).max():.3g}", replay)
                    continue
                counters["finite_difference"] += 1
                try:
                    def f(x):
                        m, c = moments(pq.JaxConnector(), x)
                        return jnp.concatenate([jnp.real(m), jnp.real(c).reshape(-1)])
                    jac = np.asarray((jax.jacfwd if counters["jax"] % 2 else jax.jacrev)(f)(jnp.asarray(p0, dtype=jnp.float64)))
                except Exception as e:  # noqa
                    counters["not_obtainable"] += 1
                    ctx.notes.setdefault("derivative_not_obtainable", {})[f"jax-gaussian:{type(e).__name__}:{g['cls']}"] = \
                        ctx.notes.setdefault("derivative_not_obtainable", {}).get(f"jax-gaussian:{type(e).__name__}:{g['cls']}", 0) + 1
                    continue
                counters["jax"] += 1
                if jac.shape != exact.shape or np.abs(jac - exact).max() > 1e-8 * scale:
                    ctx.report(f"C10:gaussian:jax:{sig}", f"JAX derivative of mean / covariance of GaussianSimulator with respect to {pname} of gate {mstep + 1} of {names} (hbar {hbar}) differs from the exact "
                               f"tangent by {np.abs(jac - exact).max() if jac.shape == exact.shape else 'shape'}", replay)
                else:
                    ctx.validated()


def perm_def(A, rows, cols):
    """permanent of the matrix with row / column multiplicities, by its definition (sum over permutations), exact for integer (Gaussian-integer) entries"""
    r = [i for i, m in enumerate(rows) for _ in range(m)]
    c = [j for j, m in enumerate(cols) for _ in range(m)]
    if len(r) != len(c):
        return 0
    tot = 0
    for p in itertools.permutations(range(len(c))):
        t = 1
        for a, b in zip(r, p):
            t *= A[a][c[b]]
        tot += t
    return tot


def part_permanent(ctx, pq, quick, rng):
    """d perm / d A_ij by the definition: sum over the copies of row i and column j of the permanent of the minor = rows_i * cols_j * perm(A; rows - e_i, cols - e_j)"""
    import jax
    import jax.numpy as jnp
    jax.config.update("jax_enable_x64", True)
    try:
        from piquasso.jax_extensions import permanent as jperm
        fn = getattr(jperm, "perm", None)
    except Exception as e:  # noqa
        ctx.notes["permanent_vjp"] = f"not importable: {type(e).__name__}: {str(e)[:100]}"
        return
    if fn is None:
        ctx.notes["permanent_vjp"] = "no permanent function exported by piquasso.jax_extensions.permanent"
        return
    counters = ctx.notes.setdefault("permanent_vjp", {"cases": 0})
    for trial in range(25 if quick else 200):
        n = rng.choice([1, 2, 3])
        A = [[complex(rng.randint(-2, 2), rng.randint(-2, 2)) for _ in range(n)] for _ in range(n)]
        while True:
            rows = [rng.randint(0, 2) for _ in range(n)]
            cols = [rng.randint(0, 2) for _ in range(n)]
            if sum(rows) == sum(cols) and 0 < sum(rows) <= 4:
                break
        exact = np.zeros((n, n), dtype=complex)
        for i in range(n):
            for j in range(n):
                if rows[i] and cols[j]:
                    r2, c2 = list(rows), list(cols)
                    r2[i] -= 1
                    c2[j] -= 1
                    exact[i, j] = rows[i] * cols[j] * perm_def(A, r2, c2)
        value = perm_def(A, rows, cols)
        ctx.case((tuple(map(tuple, A)), tuple(rows), tuple(cols)))
        counters["cases"] += 1
        replay = {"A": [[str(z) for z in row] for row in A], "rows": rows, "cols": cols}
        try:
            Aj = jnp.asarray(np.array(A), dtype=jnp.complex128)
            rj, cj = jnp.asarray(rows, dtype=jnp.uint64), jnp.asarray(cols, dtype=jnp.uint64)
            val = complex(fn(Aj, rj, cj))
            # holomorphic derivative: jax.grad of a complex function with holomorphic=True
            grad = np.asarray(jax.grad(lambda M: fn(M, rj, cj), holomorphic=True)(Aj))
        except Exception as e:  # noqa
            ctx.report(f"C10:permanent:raises:{type(e).__name__}", f"jax permanent / its gradient raised {type(e).__name__}: {str(e)[:140]}", replay)
            continue
        if abs(val - value) > 1e-9 * max(1.0, abs(value)):
            ctx.report("C10:permanent:value", f"jax permanent = {val}, definition {value} for rows {rows}, cols {cols}", replay)
        elif np.abs(grad - exact).max() > 1e-8 * max(1.0, np.abs(exact).max()):
            j = np.unravel_index(int(np.argmax(np.abs(grad - exact))), exact.shape)
            ctx.report(f"C10:permanent:gradient:{'multiplicity' if max(rows + cols) > 1 else 'simple'}", f"d perm / d A{j} = {grad[j]}, definition (permanent of the minor with multiplicities) {exact[j]} "
                       f"for rows {rows}, cols {cols}", replay)
        else:
            ctx.validated()


def run(ctx):
    import piquasso as pq
    quick = ctx.tier == "quick"
    rng = random.Random(ctx.seed + 10)
    ctx.assumptions += ["exact tangents exist only for gates with a lattice one-particle matrix (Beamsplitter theta/phi, Phaseshifter phi; Kerr-type gates are differentiated through)",
                        "hand-written gradient rules of Fock-space displacement / squeezing have no exact lattice tangent: for them the oracle is the property's own one, central finite differences of the NumPy simulation at the same cutoff"]
    part_passive_gates(ctx, pq, quick, rng)
    ctx.tick("passive_gates")
    part_active_gates(ctx, pq, quick, rng)
    ctx.tick("active_gates")
    part_gaussian_tangent(ctx, pq, quick, rng)
    ctx.tick("gaussian_tangent")
    part_permanent(ctx, pq, quick, rng)
    ctx.tick("permanent")
