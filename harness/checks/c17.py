"""C17 — the fermionic simulators agree with each other and with exclusion.

spec/PqFermi.tla: exact fermionic Fock-space semantics (Jordan-Wigner signs, passive gates by substitution and
re-ordering, documented two-mode squeezer / Ising-XX / controlled-phase action on consecutive modes) with the Majorana
covariance matrix computed from the state by its definition.  TLC checks on every reachable state: norm one, parity
superselection, particle-number conservation under passive gates, covariance real and antisymmetric; and exports the
exact state and covariance after every gate.  Replay on both fermionic simulators: state vector (Fock), covariance
matrix (both), detection probability of all 2^d occupations (both), probability map; occupations 0/1, sums, parity.
"""
import itertools
import random
import warnings

import numpy as np

from ..common import run_tlc, MachineryError
from .. import lattice as L
from ..gaussian_replay import qv

CFG = """SPECIFICATION Spec
CONSTANTS
  D = %d
  Inputs <- InDef
  Gates <- GDef
  MaxDepth = %d
  Export = TRUE
INVARIANT NormIsOne
INVARIANT ParityConserved
INVARIANT NumberConserved
INVARIANT SigmaRealAntisymmetric
INVARIANT ExportState
"""


def run(ctx):
    import piquasso as pq
    import piquasso.fermionic._utils as FU
    quick = ctx.tier == "quick"
    rng = random.Random(ctx.seed + 17)
    plans = [(3, 10 if quick else 18, 3, 2), (2, 8, 3, 3)]
    if not quick:
        plans.append((4, 12, 3, 2))
    total = 0
    for (d, ng, nin, depth) in plans:
        gates = L.fermi_catalogue(d, rng=rng, size=ng, with_cphase=True)
        inputs = rng.sample(range(2 ** d), min(nin, 2 ** d))
        mod = ("---- MODULE MCPF ----\nEXTENDS PqFermi\nGDef == << %s >>\nInDef == { %s }\n====\n"
               % (",\n ".join(L.fermi_record(g) for g in gates), ", ".join(map(str, inputs))))
        res = run_tlc("MCPF", "MCPF.cfg", generated={"MCPF.tla": mod, "MCPF.cfg": CFG % (d, depth)}, timeout=3000)
        if res.violated:
            ctx.report("spec:PqFermi:" + ",".join(map(str, res.violated)), "PqFermi violates its own theorem (oracle broken)", res.out[-2000:])
            return
        if "Error:" in res.out:
            raise MachineryError("PqFermi failed:\n" + "\n".join(l for l in res.out.splitlines() if not l.startswith('<<"FERMI"'))[-2500:])
        ctx.add_tlc(res)
        recs, seen = [], set()
        for r in res.records("FERMI"):
            k = tuple(r["hist"])
            if k not in seen:
                seen.add(k)
                recs.append(r)
        ctx.notes.setdefault("explorations", []).append({"d": d, "gates": [g["name"] + str(g["modes"]) for g in gates], "inputs": inputs, "depth": depth, "states_exported": len(recs)})
        basis = np.asarray(FU.get_fock_space_basis(d, d + 1))
        masks = [sum(int(b[k]) << k for k in range(d)) for b in basis]
        for rec in recs:
            s0 = rec["hist"][0]
            idx = [i - 1 for i in rec["hist"][1:]]
            names = [gates[i]["name"] + str(gates[i]["modes"]) for i in idx]
            sig = "/".join(n.split("(")[0] for n in names) or "input"
            psi = np.array([qv(rec["psi"][str(T)]) if isinstance(rec["psi"], dict) else qv(rec["psi"][T]) for T in range(2 ** d)])
            sigma = np.array([[qv(x) for x in row] for row in rec["sigma"]]).real
            occ = [(s0 >> k) & 1 for k in range(d)]
            replay = {"input": occ, "gates": names}
            ctx.case((s0, tuple(names)), nontrivial=len(idx) > 0)
            with warnings.catch_warnings():
                warnings.simplefilter("ignore")
                # ---- Fock-space simulator
                try:
                    ins = [pq.NumberState(occ).on_modes(*range(d))] + [gates[i]["mk"](pq).on_modes(*gates[i]["modes"]) for i in idx]
                    sf = pq.fermionic.PureFockSimulator(d=d, config=pq.Config(cutoff=d + 1)).execute(pq.Program(instructions=ins)).state
                    sv = np.asarray(sf.state_vector)
                    exp = np.array([psi[m] for m in masks])
                    if sv.shape != exp.shape or np.abs(sv - exp).max() > 1e-9:
                        j = int(np.argmax(np.abs(sv - exp))) if sv.shape == exp.shape else 0
                        ctx.report(f"C17:fock:state_vector:{sig}", f"fermionic PureFockSimulator state differs from the exact state after {names} on {occ}: amplitude of {basis[j].tolist()} is {sv[j] if sv.shape == exp.shape else 'shape'}, exact {exp[j]}", replay)
                    else:
                        cf = np.asarray(sf.covariance_matrix)
                        if np.abs(cf - sigma).max() > 1e-9:
                            ctx.report(f"C17:fock:covariance:{sig}", f"covariance_matrix of the fermionic Fock state differs from -i<[m_a, m_b]>/2 of the exact state after {names} (max {np.abs(cf - sigma).max():.3g})", replay)
                        pm = sf.fock_probabilities_map
                        tot = sum(float(v) for v in pm.values())
                        if abs(tot - 1) > 1e-9 or any(max(k) > 1 for k in pm):
                            ctx.report(f"C17:fock:probabilities:{sig}", f"fock_probabilities_map sums to {tot} / contains occupations > 1 after {names}", replay)
                except Exception as e:  # noqa
                    ctx.report(f"C17:fock-raises:{sig}:{type(e).__name__}", f"fermionic PureFockSimulator raised {type(e).__name__}: {str(e)[:100]} for {names} on {occ}", replay)
                # ---- Gaussian simulator (only gates it supports)
                if all(gates[i]["gaussian"] for i in idx):
                    try:
                        ins = [pq.NumberState(occ).on_modes(*range(d))] + [gates[i]["mk"](pq).on_modes(*gates[i]["modes"]) for i in idx]
                        sg = pq.fermionic.GaussianSimulator(d=d).execute(pq.Program(instructions=ins)).state
                        cg = np.asarray(sg.covariance_matrix)
                        if np.abs(cg - sigma).max() > 1e-9:
                            ctx.report(f"C17:gaussian:covariance:{sig}", f"fermionic GaussianSimulator covariance differs from the exact one after {names} on {occ} (max {np.abs(cg - sigma).max():.3g})", replay)
                        else:
                            for T in range(2 ** d):
                                o = np.array([(T >> k) & 1 for k in range(d)])
                                p = float(np.real(sg.get_particle_detection_probability(o)))
                                if abs(p - abs(psi[T]) ** 2) > 1e-9:
                                    ctx.report(f"C17:gaussian:detection_probability:{sig}", f"Gaussian P({o.tolist()}) = {p:.9f}, exact {abs(psi[T]) ** 2:.9f} after {names} on {occ}", replay)
                                    break
                    except Exception as e:  # noqa
                        ctx.report(f"C17:gaussian-raises:{sig}:{type(e).__name__}", f"fermionic GaussianSimulator raised {type(e).__name__}: {str(e)[:100]} for {names} on {occ}", replay)
                # ---- the same behaviour executed incrementally: every observable of the intermediate state is READ, then the
                # remaining gates are executed with initial_state = that state (a state must not remember stale derived quantities)
                if len(idx) >= 2:
                    cut = 1 + (total % (len(idx) - 1))
                    for simname, mk, ok_gates in (("fock", lambda: pq.fermionic.PureFockSimulator(d=d, config=pq.Config(cutoff=d + 1)), True),
                                                  ("gaussian", lambda: pq.fermionic.GaussianSimulator(d=d), all(gates[i]["gaussian"] for i in idx))):
                        if not ok_gates:
                            continue
                        try:
                            sim_ = mk()
                            first = [pq.NumberState(occ).on_modes(*range(d))] + [gates[i]["mk"](pq).on_modes(*gates[i]["modes"]) for i in idx[:cut]]
                            s1 = sim_.execute(pq.Program(instructions=first)).state
                            _ = np.asarray(s1.covariance_matrix)
                            for attr in ("fock_probabilities_map", "fock_probabilities", "correlation_matrix", "maj_correlation_matrix"):
                                if hasattr(type(s1), attr):
                                    _ = getattr(s1, attr)
                            rest = [gates[i]["mk"](pq).on_modes(*gates[i]["modes"]) for i in idx[cut:]]
                            s2 = sim_.execute(pq.Program(instructions=rest), initial_state=s1).state
                            c2 = np.asarray(s2.covariance_matrix)
                            if np.abs(c2 - sigma).max() > 1e-9:
                                ctx.report(f"C17:{simname}:incremental:{sig}", f"fermionic {simname} simulator: executing {names[cut:]} on the state obtained from {names[:cut]} (after reading its "
                                           f"covariance matrix and probabilities) gives a covariance that differs from the exact one (max {np.abs(c2 - sigma).max():.3g})", dict(replay, cut=cut))
                        except Exception as e:  # noqa
                            ctx.report(f"C17:{simname}:incremental-raises:{sig}:{type(e).__name__}", f"incremental execution raised {type(e).__name__}: {str(e)[:100]} for {names} on {occ}", replay)
            total += 1
            ctx.validated()
        if recs:
            ctx.sample({"input_mask": recs[-1]["hist"][0], "gates": [gates[i - 1]["name"] for i in recs[-1]["hist"][1:]], "exact_sigma_row1": recs[-1]["sigma"][0]})
    ctx.notes["states_replayed"] = total
    ctx.assumptions += ["gates on consecutive modes only (as the property states); quadratic Hamiltonians (GaussianHamiltonian) are not in the catalogue yet"]
