"""C12 — execution never modifies what the caller passed in, even on failure.

TLC: FrameOnEnd on MCEngine with an exception enabled at every instruction position x stage (resolve,
validate, step, condition).  Replay: each exported (program, fault point) is run on the real engine with the
exception injected at exactly that point; the caller's instruction objects are snapshotted before and compared
after, and the recorded trace (whose final event carries the frame) is validated by TLC.  Natural runs on all
simulators, API-level frame checks (validate / copy / as_code / execute twice, initial_state, Config, ndarray
parameters) and byte-level comparison of every array handed to the connector matrix functions and kernels.
"""
import copy
import random
import warnings

import numpy as np

from .. import engine_campaign as EC
from .. import engine_natural as EN
from ..recorder import EngineRecorder


def _state_snapshot(state):
    snap = {}
    for k, v in vars(state).items():
        if isinstance(v, np.ndarray):
            snap[k] = (v.dtype.str, v.shape, v.tobytes())
        elif isinstance(v, (int, float, complex, str, tuple, type(None))):
            snap[k] = v
        elif isinstance(v, list) and all(isinstance(x, (np.ndarray, int, float, complex)) for x in v):
            snap[k] = [x.tobytes() if isinstance(x, np.ndarray) else x for x in v]
    return snap


def _config_snapshot(cfg):
    return {k: (v.tobytes() if isinstance(v, np.ndarray) else repr(v)) for k, v in vars(cfg).items() if k not in ("rng", "_rng")}


def api_frame(ctx, pq, seed, n):
    rng = random.Random(seed)
    done = 0
    for fam, gen in EN.FAMILIES.items():
        for i in range(n):
            d = rng.randint(2, 3)
            with warnings.catch_warnings():
                warnings.simplefilter("ignore")
                try:
                    sim, ins = gen(pq, rng, d)
                except Exception:
                    continue
                shots = (1, 3, None)[i % 3]
                prog = pq.Program(instructions=ins)
                before = EC.snapshot(ins)
                cfg_user = sim.config
                cfg_before = _config_snapshot(cfg_user)
                ops = [("validate", lambda: sim.validate(prog)), ("copy", lambda: copy.copy(prog)),
                       ("execute", lambda: sim.execute(prog, shots=shots)), ("execute2", lambda: sim.execute(prog, shots=shots))]
                if all(ins_._condition is None and ins_._is_resolved() for ins_ in ins):
                    ops.append(("as_code", lambda: pq.as_code(prog, sim, shots=shots if shots else 1)))
                    ops.append(("to_dict", lambda: [dict(type=type(x).__name__, modes=x.modes) for x in prog.instructions]))
                outcomes = {}
                for name, op in ops:
                    status = "return"
                    try:
                        r = op()
                        if name.startswith("execute"):
                            outcomes[name] = sorted((tuple(map(float, b.outcome)), float(b.frequency)) for b in r.branches)
                    except Exception as e:  # noqa
                        status = "raise:" + type(e).__name__
                        if name.startswith("execute"):
                            outcomes[name] = status
                    after = EC.snapshot(ins)
                    ctx.case(("api", fam, i, name))
                    if after != before:
                        diff = [j for j, (x, y) in enumerate(zip(before, after)) if x != y]
                        ctx.report(f"C12:api:{name}:{status.split(':')[0]}:{fam}",
                                   f"{name} on {fam} program changed the caller's instructions ({status}): {[(before[j][:2], after[j][:2]) for j in diff][:2]}",
                                   {"family": fam, "op": name, "program": [repr(x) for x in ins], "shots": shots})
                        before = after
                    if _config_snapshot(cfg_user) != cfg_before:
                        ctx.report(f"C12:api-config:{name}:{fam}", f"{name} changed the simulator's Config", {"family": fam, "op": name})
                        cfg_before = _config_snapshot(cfg_user)
                    if len(prog.instructions) != len(ins) or any(a is not b for a, b in zip(prog.instructions, ins)):
                        ctx.report(f"C12:api-proglist:{name}:{fam}", f"{name} changed the program's instruction list", {"family": fam, "op": name})
                done += 1
    return done


def initial_state_frame(ctx, pq):
    """the initial_state argument (and a user Config) must be unchanged after execute, on return and on raise"""
    cases = []
    with warnings.catch_warnings():
        warnings.simplefilter("ignore")
        cfg = pq.Config(cutoff=5, seed_sequence=11)
        sims = {
            "PureFock": (pq.PureFockSimulator(d=2, config=cfg),
                         [pq.Vacuum(), pq.Displacement(r=0.4).on_modes(0), pq.Squeezing(r=0.2).on_modes(1)],
                         [pq.Beamsplitter(theta=0.5).on_modes(0, 1), pq.Kerr(xi=0.3).on_modes(0), pq.CrossKerr(xi=0.2).on_modes(0, 1),
                          pq.Phaseshifter(phi=0.2).on_modes(1), pq.Squeezing(r=0.1).on_modes(0), pq.ParticleNumberMeasurement().on_modes(0)]),
            "Fock": (pq.FockSimulator(d=2, config=cfg),
                     [pq.Vacuum(), pq.Displacement(r=0.4).on_modes(0)],
                     [pq.Beamsplitter(theta=0.5).on_modes(0, 1), pq.Kerr(xi=0.3).on_modes(0), pq.Squeezing(r=0.1).on_modes(0),
                      pq.ParticleNumberMeasurement()]),
            "Gaussian": (pq.GaussianSimulator(d=2, config=cfg),
                         [pq.Vacuum(), pq.Displacement(r=0.4).on_modes(0), pq.Squeezing(r=0.2).on_modes(1)],
                         [pq.Beamsplitter(theta=0.5).on_modes(0, 1), pq.Squeezing2(r=0.1).on_modes(0, 1), pq.HomodyneMeasurement().on_modes(0),
                          pq.Displacement(r=0.1).on_modes(1), pq.ParticleNumberMeasurement().on_modes(1)]),
            "Passive": (pq.PassiveSimulator(d=2, config=cfg),
                        [pq.NumberState([1, 1]).on_modes(0, 1)],
                        [pq.Beamsplitter(theta=0.5).on_modes(0, 1), pq.Phaseshifter(phi=0.3).on_modes(0), pq.ParticleNumberMeasurement()]),
            "FermionicGaussian": (pq.fermionic.GaussianSimulator(d=2, config=cfg),
                                  [pq.NumberState([1, 0]).on_modes(0, 1)],
                                  [pq.Beamsplitter(theta=0.5).on_modes(0, 1), pq.Squeezing2(r=0.2).on_modes(0, 1), pq.ParticleNumberMeasurement()]),
            "FermionicFock": (pq.fermionic.PureFockSimulator(d=2, config=pq.Config(cutoff=3, seed_sequence=11)),
                              [pq.NumberState([1, 0]).on_modes(0, 1)],
                              [pq.Beamsplitter(theta=0.5).on_modes(0, 1), pq.Squeezing2(r=0.2).on_modes(0, 1), pq.ParticleNumberMeasurement()]),
        }
        for name, (sim, prep, body) in sims.items():
            try:
                st = sim.execute(pq.Program(instructions=prep)).state
            except Exception as e:  # noqa
                ctx.notes.setdefault("initial_state_skipped", []).append(f"{name}: {type(e).__name__}")
                continue
            # prefixes of the body, and every instruction as the FIRST one acting on the caller's state
            variants = [body[:upto] for upto in range(1, len(body) + 1)] + [[x] for x in body[1:]] + [[x] + body[:j] for j, x in enumerate(body) if j >= 2]
            if name in ("PureFock", "Fock"):
                variants += [[pq.SNAP(theta=np.array([0.1, 0.2, 0.3, 0.4, 0.5])).on_modes(0)], [pq.CubicPhase(gamma=0.1).on_modes(1)],
                             [pq.Displacement(r=0.2).on_modes(1)], [pq.Attenuator(theta=0.3).on_modes(0)] if name == "Fock" else [pq.Kerr(xi=0.4).on_modes(1)]]
            for vbody in variants:
                for fault in (False, True):
                    ins = [copy.copy(x) for x in vbody]
                    snap = _state_snapshot(st)
                    cfgsnap = _config_snapshot(sim.config)
                    undo = None
                    if fault:
                        from piquasso.api.simulator import Simulator
                        old = Simulator.__dict__["_get_simulation_step"]
                        target = len(ins)
                        counter = {"n": 0}

                        def _get(s, instruction, old=old, counter=counter, target=target):
                            step = old(s, instruction)

                            def wrapped(state, ins_, shots=None, **kw):
                                r = step(state, ins_, shots=shots, **kw)     # let the step run (and possibly mutate), then fail
                                counter["n"] += 1
                                if counter["n"] == target:
                                    raise RuntimeError("injected after the last step")
                                return r
                            return wrapped
                        Simulator._get_simulation_step = _get
                        undo = (Simulator, old)
                    status = "return"
                    try:
                        sim.execute(pq.Program(instructions=ins), initial_state=st, shots=2)
                    except Exception as e:  # noqa
                        status = "raise:" + type(e).__name__
                    finally:
                        if undo:
                            undo[0]._get_simulation_step = undo[1]
                    ctx.case(("init", name, tuple(type(x).__name__ for x in vbody), fault))
                    if _state_snapshot(st) != snap:
                        changed = [k for k in snap if _state_snapshot(st).get(k) != snap[k]]
                        ctx.report(f"C12:initial_state:{name}:{type(ins[-1]).__name__}",
                                   f"initial_state passed to {name} execute was modified ({status}) by a program ending in {type(ins[-1]).__name__}: fields {changed}",
                                   {"sim": name, "program": [repr(x) for x in ins], "status": status})
                        st = sim.execute(pq.Program(instructions=prep)).state
                    if _config_snapshot(sim.config) != cfgsnap:
                        ctx.report(f"C12:config:{name}", f"Config changed by execute on {name}", {"sim": name})


def connector_arrays(ctx, pq, seed):
    """arrays handed to connector matrix functions / kernels must be byte-identical afterwards"""
    rng = np.random.default_rng(seed)
    conn = pq.NumpyConnector()

    def variants(a):
        yield "C", np.ascontiguousarray(a)
        yield "F", np.asfortranarray(a)
        big = np.zeros((a.shape[0] * 2,) + tuple(s * 2 for s in a.shape[1:]), dtype=a.dtype)
        sl = tuple(slice(None, None, 2) for _ in a.shape)
        big[sl] = a
        yield "strided", big[sl]
        ro = np.array(a)
        ro.setflags(write=False)
        yield "readonly", ro

    def check(name, fn, arrays):
        """arrays: dict name -> ndarray; fn(**arrays)"""
        import itertools
        keys = list(arrays)
        for combo in itertools.product(*[list(variants(arrays[k])) for k in keys]):
            args = {k: v for k, (_, v) in zip(keys, combo)}
            tags = ",".join(t for t, _ in combo)
            before = {k: (v.tobytes(), v.shape, v.strides) for k, v in args.items()}
            status = "return"
            try:
                fn(**args)
            except Exception as e:  # noqa
                status = "raise:" + type(e).__name__
            ctx.case(("conn", name, tags))
            for k, v in args.items():
                if (v.tobytes(), v.shape, v.strides) != before[k]:
                    ctx.report(f"C12:array:{name}:{k}", f"{name} modified its argument '{k}' (layout {tags}, {status})",
                               {"function": name, "argument": k, "layout": tags})

    for n in (2, 4):
        A = rng.normal(size=(n, n)) + 1j * rng.normal(size=(n, n))
        S = A + A.T
        R = rng.normal(size=(n, n))
        K = R - R.T
        occ = np.array([1] * n, dtype=np.int32)
        occ2 = np.array(([2, 0, 1, 1] * n)[:n], dtype=np.int32)
        check("connector.permanent", lambda matrix, rows, cols: conn.permanent(matrix, rows, cols), {"matrix": A, "rows": occ, "cols": occ})
        check("connector.permanent_laplace", lambda matrix, rows, cols: conn.permanent_laplace(matrix, rows, cols),
              {"matrix": A, "rows": occ, "cols": occ})
        check("connector.hafnian", lambda matrix, reduce_on: conn.hafnian(matrix, reduce_on), {"matrix": S, "reduce_on": occ2})
        check("connector.loop_hafnian", lambda matrix, diagonal, reduce_on: conn.loop_hafnian(matrix, diagonal, reduce_on),
              {"matrix": S, "diagonal": np.diag(S).copy(), "reduce_on": occ2})
        check("connector.pfaffian", lambda matrix: conn.pfaffian(matrix), {"matrix": K})
        from piquasso._math.torontonian import torontonian, loop_torontonian
        P = R @ R.T
        P = P / (np.linalg.eigvalsh(P).max() + 1.0)
        check("torontonian", lambda matrix: torontonian(matrix), {"matrix": P})
        check("loop_torontonian", lambda matrix, displacement: loop_torontonian(matrix, displacement), {"matrix": P, "displacement": rng.normal(size=n)})
    for name in ("polar", "logm", "expm", "sqrtm", "svd", "schur"):
        M = rng.normal(size=(3, 3)) + 1j * rng.normal(size=(3, 3))
        M = M @ M.conj().T + np.eye(3)
        check(f"connector.{name}", lambda matrix, name=name: getattr(conn, name)(matrix), {"matrix": M})


def run(ctx):
    import piquasso as pq
    ctx.tick("import")
    quick = ctx.tier == "quick"
    if EC.model_check(ctx, "MCEngine_frame.cfg", **({} if quick else {"MaxLen": 3, "DModes": 2})) is None:
        return
    ctx.tick("tlc_model_check")
    behs = EC.export_behaviours(ctx, "MCEngine_frame.cfg", num=12 if quick else 100, seed=ctx.seed + 1, DModes=2, MaxLen=3, MaxShots=3)
    ctx.tick("tlc_export")
    rec = EngineRecorder()
    n_ok = n_fault = 0
    for b in behs:
        if b["shots"] == 0 and b["phase"] == "done":
            continue
        r = EC.replay_behaviour(ctx, pq, b, rec, d=2, pid="C12", check_frame=True)
        if r == "ok":
            n_ok += 1
            n_fault += b["phase"] == "failed"
    ctx.notes["behaviours_replayed"] = n_ok
    ctx.notes["with_injected_or_predicted_failure"] = int(n_fault)
    fails = [b for b in behs if b["phase"] == "failed" and b["stage"] in ("step", "validate", "resolve")]
    if fails:
        ctx.sample({"behaviour_with_fault": {k: fails[0][k] for k in ("prog", "shots", "exc", "pc", "bidx", "stage")}})
    ctx.tick("replay")
    EC.validate_traces(ctx, "C12", rec.traces, "fault-replay")
    ctx.tick("trace_validation_1")
    rec2 = EngineRecorder().install()
    try:
        EN.run_natural(pq, rec2, ctx.seed + 5, per_family=12 if quick else 100)
    finally:
        rec2.uninstall()
    ctx.tick("natural_runs")
    EC.validate_traces(ctx, "C12", rec2.traces, "natural")
    ctx.tick("trace_validation_2")
    ctx.notes["api_frame_programs"] = api_frame(ctx, pq, ctx.seed, 6 if quick else 40)
    ctx.tick("api_frame")
    initial_state_frame(ctx, pq)
    ctx.tick("initial_state_frame")
    connector_arrays(ctx, pq, ctx.seed)
    ctx.tick("connector_arrays")
    ctx.sample({"api_ops": ["validate", "copy", "execute", "execute again", "as_code"], "compared": "modes, params (arrays by bytes), conditions, Config fields, instruction list identity"})
    ctx.assumptions += ["Config.rng position is shared between a Config and its copies by design and is not part of the frame",
                        "a string parameter being replaced by an Expression object with the same source text is not counted as a change"]
