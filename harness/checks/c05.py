"""C05 — passive-state probability interfaces agree with a unitary dilation.

PqOptics.tla models loss as the unitary dilation (beamsplitter onto a fresh ancilla) and post-selection as projection;
TLC checks on the spec that gates + dilation preserve the norm exactly, that projections only lower it, the chain rule and
sequential = joint projection, and exports the exact state (system + ancillas) after every step.  Replay on
PassiveSimulator: single-outcome probability, probability table, marginals on every mode subset, state vector and norm
are compared with the marginal of the exact dilation; the dilation program itself is executed on PureFockSimulator
(the property's own oracle) and compared amplitude by amplitude.
"""
import itertools
import math
import random
import warnings

import numpy as np

from ..common import run_tlc, MachineryError
from .. import lattice as L
from .. import optics_replay as OR

CFG = """SPECIFICATION Spec
CONSTANTS
  D = %d
  Inputs <- InDef
  Gates <- GDef
  Losses <- LDef
  MeasSets <- MDef
  Perm <- PDef
  CommuteDepth = 0
  MaxDepth = %d
  Measure = TRUE
  Export = TRUE
INVARIANT NormIsOne
INVARIANT NormAtMostOne
INVARIANT ChainRule
INVARIANT SeqEqJoint
INVARIANT ExportState
"""


def explore(ctx, d, gates, losses, meassets, inputs, depth, simulate=None, seed=0):
    mod = OR.spec_module("MCPO", d, gates, inputs, losses=losses, meassets=meassets)
    res = run_tlc("MCPO", "MCPO.cfg", generated={"MCPO.tla": mod, "MCPO.cfg": CFG % (d, depth)}, timeout=3000,
                  simulate=simulate, depth=(depth + 1) if simulate else None, seed=seed if simulate else None)
    if res.violated:
        ctx.report("spec:PqOptics:" + ",".join(map(str, res.violated)), "PqOptics violates its own theorem (oracle broken)", res.out[-2000:])
        return []
    if "Error:" in res.out:
        raise MachineryError("PqOptics run failed:\n" + "\n".join(l for l in res.out.splitlines() if not l.startswith('<<"OPT"'))[-2500:])
    ctx.add_tlc(res)
    seen, out = set(), []
    for r in res.records("OPT"):
        key = repr(r["hist"])
        if key not in seen:
            seen.add(key)
            out.append(r)
    return out


def decode(rec):
    """-> (input, steps, system_probabilities {v: p}, amplitudes {full vec: amp}, n_sys, n_anc)"""
    import re
    den = (L.SQ2 ** rec["e2"]) * (5.0 ** rec["e5"]) * math.sqrt(rec["nfn"] / rec["nfd"])
    nsys = len(rec["live"])
    amps, probs = {}, {}
    for k, r in rec["terms"].items():
        vec = tuple(int(x) for x in re.findall(r"-?\d+", k))
        a = L.ring_to_complex(r) * math.sqrt(math.prod(math.factorial(x) for x in vec)) / den
        amps[vec] = a
        probs[vec[:nsys]] = probs.get(vec[:nsys], 0.0) + abs(a) ** 2
    return tuple(rec["hist"][0]["input"]), rec["hist"][1:], probs, amps, nsys, rec["nmodes"] - nsys


def run(ctx):
    import piquasso as pq
    from piquasso.api.exceptions import NotImplementedCalculation
    from piquasso._math.fock import get_fock_space_basis
    quick = ctx.tier == "quick"
    rng = random.Random(ctx.seed)
    plans = [(3, 5, 3, 2), (3, 3, 2, 3)] if quick else [(3, 6, 3, 3)]
    if not quick:
        plans += [(2, 6, 3, 4), (3, 10, 4, 3)]
    counters = {"states": 0, "not_implemented": 0, "lossy": 0, "postselected": 0}
    for (d, ng, nin, depth) in plans:
        gates = L.passive_catalogue(d, rng=rng, size=ng, with_kerr=False)
        losses = [L.loss(i, t) for i in range(d) for t in rng.sample(["4/5", "3/5", "1/sqrt2"], 1)]
        meassets = [(i,) for i in range(d)] + ([(1, 0)] if d >= 2 else []) + ([(2, 0)] if d >= 3 else [])
        inputs = L.inputs(d, 3, rng=rng, size=nin)
        recs = explore(ctx, d, gates, losses, meassets, inputs, depth)
        ctx.notes.setdefault("explorations", []).append({"d": d, "gates": [g["name"] + str(g["modes"]) for g in gates], "losses": [g["name"] + str(g["modes"]) for g in losses],
                                                         "postselection_sets": meassets, "inputs": inputs, "depth": depth, "states_exported": len(recs)})
        for rec in recs:
            inp, steps, probs, amps, nsys, nanc = decode(rec)
            n = sum(inp)
            # post-selection only on states that still have modes left
            if nsys == 0:
                continue
            name = []
            with warnings.catch_warnings():
                warnings.simplefilter("ignore")
                ins = [pq.NumberState(inp).on_modes(*range(d))]
                dil = [pq.NumberState(list(inp) + [0] * nanc).on_modes(*range(d + nanc))]
                anc = d
                lossy = post = False
                for st in steps:
                    if "gate" in st:
                        g = gates[st["gate"] - 1]
                        ins.append(g["mk"](pq).on_modes(*g["modes"]))
                        dil.append(g["mk"](pq).on_modes(*g["modes"]))
                        name.append(g["name"] + str(g["modes"]))
                    elif "loss" in st:
                        g = losses[st["loss"] - 1]
                        ins.append(g["mk"](pq).on_modes(*g["modes"]))
                        dil.append(pq.Beamsplitter(theta=math.acos(g["t"]), phi=0.0).on_modes(g["modes"][0], anc))
                        anc += 1
                        lossy = True
                        name.append(g["name"] + str(g["modes"]))
                    else:
                        ins.append(pq.PostSelectPhotons(photon_counts=tuple(st["outcome"])).on_modes(*st["modes"]))
                        dil.append(pq.PostSelectPhotons(photon_counts=tuple(st["outcome"])).on_modes(*st["modes"]))
                        post = True
                        name.append(f"PostSelect{tuple(st['modes'])}={tuple(st['outcome'])}")
                key = (inp, tuple(name))
                ctx.case(key, nontrivial=len(steps) > 0)
                counters["states"] += 1
                counters["lossy"] += lossy
                counters["postselected"] += post
                replay = {"input": inp, "steps": name}
                sig = "/".join(sorted({x.split("(")[0] for x in name}))
                try:
                    st_p = pq.PassiveSimulator(d=d, config=pq.Config(cutoff=n + 1)).execute(pq.Program(instructions=ins)).state
                except Exception as e:  # noqa
                    ctx.report(f"C05:execute-raises:{sig}:{type(e).__name__}", f"PassiveSimulator raised {type(e).__name__}: {str(e)[:100]} for {name} on {inp}", replay)
                    continue
                basis = [tuple(int(x) for x in b) for b in get_fock_space_basis(d=nsys, cutoff=n + 1)]
                # (a) single-outcome probabilities
                try:
                    for v in basis:
                        pc = complex(st_p.get_particle_detection_probability(np.array(v)))
                        p = pc.real
                        e = probs.get(v, 0.0)
                        if abs(pc.imag) > 1e-9:
                            ctx.report(f"C05:detection_probability-complex:{'lossy' if lossy else 'lossless'}", f"P({v}) = {pc} has an imaginary part after {name} on {inp}", replay)
                            break
                        if abs(p - e) > 1e-9:
                            ctx.report(f"C05:detection_probability:{sig}", f"P({v}) = {p:.9f} but the dilation gives {e:.9f} after {name} on {inp}", replay)
                            break
                except NotImplementedCalculation:
                    counters["not_implemented"] += 1
                except Exception as e:  # noqa
                    ctx.report(f"C05:detection_probability-raises:{sig}:{type(e).__name__}", f"get_particle_detection_probability raised {type(e).__name__}: {str(e)[:80]} after {name}", replay)
                # (b) probability table, norm
                try:
                    table = st_p.fock_probabilities_map
                    bad = [v for v in basis if abs(float(table.get(v, 0.0)) - probs.get(v, 0.0)) > 1e-9]
                    if bad or any(float(x) < -1e-12 for x in table.values()):
                        v = bad[0] if bad else None
                        cplx = "complex-transmission" if np.abs(np.imag(np.asarray(st_p.interferometer))).max() > 1e-12 else "real-transmission"
                        ctx.report(f"C05:table:{'lossy' if lossy else 'lossless'}:{'post' if post else 'nopost'}:{cplx}",
                                   f"fock_probabilities_map[{v}] = {float(table.get(v, 0.0)) if v else 'negative entry'} but the dilation gives {probs.get(v, 0.0) if v else ''} after {name} on {inp} (table sums to {sum(map(float, table.values())):.6f})", replay)
                    nrm = float(st_p.norm)
                    if abs(nrm - sum(probs.values())) > 1e-9:
                        ctx.report(f"C05:norm:{'lossy' if lossy else 'lossless'}:{'post' if post else 'nopost'}", f"norm = {nrm:.9f}, dilation gives {sum(probs.values()):.9f} after {name}", replay)
                except NotImplementedCalculation:
                    counters["not_implemented"] += 1
                except Exception as e:  # noqa
                    ctx.report(f"C05:table-raises:{'lossy' if lossy else 'lossless'}:{'post' if post else 'nopost'}:{type(e).__name__}",
                               f"fock_probabilities_map raised {type(e).__name__}: {str(e)[:80]} after {name} on {inp}", replay)
                # (c) marginals on every proper subset
                for k in range(1, nsys):
                    for sub in itertools.combinations(range(nsys), k):
                        try:
                            # the argument addresses the modes by their ORIGINAL labels (post-selected modes excluded)
                            mg = st_p.get_marginal_fock_probabilities(modes=tuple(rec["live"][i] for i in sub))
                        except NotImplementedCalculation:
                            counters["not_implemented"] += 1
                            continue
                        except Exception as e:  # noqa
                            ctx.report(f"C05:marginal-raises:{sig}:{type(e).__name__}", f"get_marginal_fock_probabilities({sub}) raised {type(e).__name__}: {str(e)[:80]} after {name}", replay)
                            continue
                        exp = {}
                        for v, p in probs.items():
                            w = tuple(v[i] for i in sub)
                            exp[w] = exp.get(w, 0.0) + p
                        for w in set(exp) | {tuple(int(x) for x in kk) for kk in mg}:
                            got = float(mg.get(w, 0.0)) if w in mg else float(mg.get(tuple(np.int64(x) for x in w), 0.0))
                            if abs(got - exp.get(w, 0.0)) > 1e-9:
                                ctx.report(f"C05:marginal:{sig}", f"marginal P{sub}({w}) = {got:.9f}, dilation {exp.get(w, 0.0):.9f} after {name} on {inp}", replay)
                                break
                # (e) state vector of lossless states
                if not lossy:
                    try:
                        sv = np.asarray(st_p.state_vector)
                        exp = np.array([amps.get(v, 0.0) for v in basis], dtype=complex)
                        if sv.shape == exp.shape and np.abs(sv - exp).max() > 1e-9:
                            ctx.report(f"C05:state_vector:{sig}", f"state_vector differs from the exact state after {name} on {inp}", replay)
                    except NotImplementedCalculation:
                        counters["not_implemented"] += 1
                    except Exception as e:  # noqa
                        ctx.report(f"C05:state_vector-raises:{sig}:{type(e).__name__}", f"state_vector raised {type(e).__name__}: {str(e)[:80]} after {name}", replay)
                # (f) the property's own oracle: the lossless dilation on the pure Fock simulator
                try:
                    st_d = pq.PureFockSimulator(d=d + nanc, config=pq.Config(cutoff=n + 1)).execute(pq.Program(instructions=dil)).state
                    dbasis = [tuple(int(x) for x in b) for b in get_fock_space_basis(d=nsys + nanc, cutoff=int(st_d._config.cutoff))]
                    sv = np.asarray(st_d.state_vector)
                    exp = np.array([amps.get(v, 0.0) for v in dbasis], dtype=complex)
                    if sv.shape != exp.shape or np.abs(sv - exp).max() > 1e-9:
                        ctx.report(f"C05:dilation-purefock:{sig}", f"PureFockSimulator on the dilation differs from the exact state after {name} on {inp}", replay)
                except Exception as e:  # noqa
                    ctx.report(f"C05:dilation-raises:{sig}:{type(e).__name__}", f"dilation on PureFockSimulator raised {type(e).__name__}: {str(e)[:80]} after {name}", replay)
            ctx.validated()
        if recs:
            inp, steps, probs, amps, nsys, nanc = decode(recs[-1])
            ctx.sample({"input": inp, "steps": steps, "system_probabilities": {str(k): round(v, 9) for k, v in list(probs.items())[:5]}})
    ctx.notes["counters"] = counters
    ctx.assumptions += ["partial distinguishability (Gram-matrix overlaps) is not modelled by PqOptics yet: only indistinguishable bosons with loss and post-selection",
                        "lattice transmissivities 3/5, 4/5, 1/sqrt2"]
