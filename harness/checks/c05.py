"""C05 — passive-state probability interfaces agree with a unitary dilation.

PqOptics.tla models loss as the unitary dilation (beamsplitter onto a fresh ancilla) and post-selection as projection;
TLC checks on the spec that gates + dilation preserve the norm exactly, that projections only lower it, the chain rule and
sequential = joint projection, and exports the exact state (system + ancillas) after every step.  Replay on
PassiveSimulator: single-outcome probability, probability table, marginals on every mode subset, state vector and norm
are compared with the marginal of the exact dilation; the dilation program itself is executed on PureFockSimulator
(the property's own oracle) and compared amplitude by amplitude.
"""
import itertools
import math
import random
import warnings

import numpy as np

from ..common import run_tlc, MachineryError
from .. import lattice as L
from .. import optics_replay as OR

CFG = """SPECIFICATION Spec
CONSTANTS
  D = %d
  Inputs <- InDef
  Gates <- GDef
  Losses <- LDef
  MeasSets <- MDef
  Perm <- PDef
  CommuteDepth = 0
  MaxDepth = %d
  Measure = TRUE
  Export = TRUE
INVARIANT NormIsOne
INVARIANT NormAtMostOne
INVARIANT ChainRule
INVARIANT SeqEqJoint
INVARIANT ExportState
"""


def explore(ctx, d, gates, losses, meassets, inputs, depth, simulate=None, seed=0):
    mod = OR.spec_module("MCPO", d, gates, inputs, losses=losses, meassets=meassets)
    res = run_tlc("MCPO", "MCPO.cfg", generated={"MCPO.tla": mod, "MCPO.cfg": CFG % (d, depth)}, timeout=3000,
                  simulate=simulate, depth=(depth + 1) if simulate else None, seed=seed if simulate else None)
    # 32-bit integers: deep behaviours with many photons can overflow in the exact norm (a TLC error, never silent): one step less, recorded
    while "Overflow when computing" in res.out and depth > 1 and not simulate:
        depth -= 1
        ctx.notes.setdefault("optics_overflow_reductions", []).append({"d": d, "depth_reduced_to": depth})
        res = run_tlc("MCPO", "MCPO.cfg", generated={"MCPO.tla": mod, "MCPO.cfg": CFG % (d, depth)}, timeout=3000)
    if res.violated:
        ctx.report("spec:PqOptics:" + ",".join(map(str, res.violated)), "PqOptics violates its own theorem (oracle broken)", res.out[-2000:])
        return []
    if "Error:" in res.out:
        raise MachineryError("PqOptics run failed:\n" + "\n".join(l for l in res.out.splitlines() if not l.startswith('<<"OPT"'))[-2500:])
    ctx.add_tlc(res)
    seen, out = set(), []
    for r in res.records("OPT"):
        key = repr(r["hist"])
        if key not in seen:
            seen.add(key)
            out.append(r)
    return out


def decode(rec):
    """-> (input, steps, system_probabilities {v: p}, amplitudes {full vec: amp}, n_sys, n_anc)"""
    import re
    den = (L.SQ2 ** rec["e2"]) * (5.0 ** rec["e5"]) * math.sqrt(rec["nfn"] / rec["nfd"])
    nsys = len(rec["live"])
    amps, probs = {}, {}
    for k, r in rec["terms"].items():
        vec = tuple(int(x) for x in re.findall(r"-?\d+", k))
        a = L.ring_to_complex(r) * math.sqrt(math.prod(math.factorial(x) for x in vec)) / den
        amps[vec] = a
        probs[vec[:nsys]] = probs.get(vec[:nsys], 0.0) + abs(a) ** 2
    return tuple(rec["hist"][0]["input"]), rec["hist"][1:], probs, amps, nsys, rec["nmodes"] - nsys


def dist_plans(quick, rng):
    """(ds, nc, photons, ngates, depth, losses?)"""
    from .. import distinguish_replay as DR
    plans = []
    # uniform overlaps 16/25, 9/25, 1/2 on every occupation with 2 photons (3 in the thorough tier), d = 2
    occ2 = [(1, 1), (2, 0), (0, 2)]
    ph = [DR.uniform_photons(o, a, b, 3) for o in occ2 for (a, b) in ((4, 3), (3, 4), (1, 1))]
    plans.append((2, 3, ph if not quick else rng.sample(ph, 5), 4, 2, True))
    # a bunched mode interfering with another occupied mode (three photons, four internal components)
    ph = [DR.uniform_photons((2, 1), 4, 3, 4), DR.uniform_photons((1, 2), 1, 1, 4)] + ([DR.uniform_photons((2, 1), 3, 4, 4), DR.uniform_photons((3, 0), 4, 3, 4)] if not quick else [])
    plans.append((2, 4, ph, 3, 1 if quick else 2, False))
    # general Gram matrices (two internal components): real and complex overlaps, 3 photons
    vec3 = [[(1, 0), (4, 3), (0, 1)], [(1, 0), (4, 3j), (3, 4)], [(1, 1), (1, 0), (1, -1)]]
    if quick:     # always a bunched mode preceded by a singly occupied one, and the other way round
        ph = [DR.gram_photons((1, 2, 0), vec3[0], 2), DR.gram_photons((0, 1, 2), vec3[1], 2), DR.gram_photons((1, 1, 1), vec3[2], 2), DR.gram_photons((2, 1, 0), vec3[rng.randrange(3)], 2)]
    else:
        ph = [DR.gram_photons(o, v, 2) for o in ((1, 1, 1), (2, 1, 0), (0, 1, 2), (1, 2, 0), (1, 0, 2)) for v in vec3]
    plans.append((3, 2, ph, 3, 1 if quick else 2, True))
    if not quick:
        occ3 = [(1, 1, 1), (2, 1, 0), (3, 0, 0), (1, 0, 2)]
        ph = [DR.uniform_photons(o, a, b, 4) for o in occ3 for (a, b) in ((4, 3), (1, 1))]
        plans.append((3, 4, ph, 4, 2, False))
    return plans


def dist_program(pq, d, ph, gates, losses, steps):
    ins = [pq.DistinguishableNumberState(ph["occ"], particle_overlap=ph["overlap"]).on_modes(*range(d))]
    name, lossy = [], False
    for st in steps:
        g = gates[st["gate"] - 1] if "gate" in st else losses[st["loss"] - 1]
        lossy = lossy or "loss" in st
        ins.append(g["mk"](pq).on_modes(*g["modes"]))
        name.append(g["name"] + str(g["modes"]))
    return ins, name, lossy


def part_distinguishable(ctx, pq, quick, rng):
    """PqDistinguish: internal states as extra modes (the definition); PassiveSimulator with DistinguishableNumberState"""
    from piquasso.api.exceptions import NotImplementedCalculation
    from piquasso._math.fock import get_fock_space_basis
    from .. import distinguish_replay as DR
    counters = ctx.notes.setdefault("distinguishable", {"states": 0, "uniform": 0, "gram": 0, "lossy": 0, "postselected": 0, "not_implemented": 0})
    for (d, nc, photons, ng, depth, with_loss) in dist_plans(quick, rng):
        gates = L.passive_catalogue(d, rng=rng, size=ng, with_kerr=False)
        losses = [L.loss(i, t) for i in range(d) for t in rng.sample(["4/5", "1/sqrt2"], 1)] if with_loss else []
        recs = DR.explore(ctx, d, nc, gates, photons, depth, losses)
        ctx.notes.setdefault("explorations", []).append({"spec": "PqDistinguish", "d": d, "internal_components": nc, "gates": [g["name"] + str(g["modes"]) for g in gates],
                                                         "photon_records": len(photons), "depth": depth, "states_exported": len(recs)})
        for rec in recs:
            ph, law = rec["photons"], rec["law"]
            n = len(ph["ms"])
            with warnings.catch_warnings():
                warnings.simplefilter("ignore")
                ins, name, lossy = dist_program(pq, d, ph, gates, losses, rec["steps"])
                counters["states"] += 1
                counters[ph["kind"]] += 1
                counters["lossy"] += lossy
                replay = {"occupation": ph["occ"], "overlap": np.asarray(ph["overlap"]).tolist() if ph["kind"] == "gram" else ph["overlap"], "steps": name}
                ctx.case((ph["occ"], ph["kind"], repr(replay["overlap"]), tuple(name)))
                cplx_gates = any(any(x[2] != 0 or x[3] != 0 for row in gates[st["gate"] - 1]["M"] for x in row) for st in rec["steps"] if "gate" in st)
                # lossy states with a complex transmission matrix go through the kernel of the known finding (conjugation defect); keep them apart
                tag = (f"lossy:{'complex' if cplx_gates else 'real'}-transmission:{ph['kind']}" if lossy else f"lossless:{ph['kind']}")
                # optional post-selection of one mode on an outcome of positive probability
                variants = [None]
                cands = sorted({(m, s[m]) for s, p in law.items() if p > 1e-9 for m in range(d)})
                if cands:
                    variants.append(rng.choice(cands))
                for post in variants:
                    ins2 = list(ins)
                    if post is None:
                        exp = dict(law)
                        rest = list(range(d))
                    else:
                        m, k = post
                        ins2.append(pq.PostSelectPhotons(photon_counts=(k,)).on_modes(m))
                        rest = [i for i in range(d) if i != m]
                        exp = {tuple(s[i] for i in rest): p for s, p in law.items() if s[m] == k}
                        counters["postselected"] += 1
                    rp = dict(replay, postselect=post)
                    try:
                        st_p = pq.PassiveSimulator(d=d, config=pq.Config(cutoff=n + 1)).execute(pq.Program(instructions=ins2)).state
                    except NotImplementedCalculation:
                        counters["not_implemented"] += 1
                        continue
                    except Exception as e:  # noqa
                        ctx.report(f"C05:dist:execute-raises:{tag}:{type(e).__name__}", f"PassiveSimulator raised {type(e).__name__}: {str(e)[:100]} for {name} on {ph['occ']}", rp)
                        continue
                    basis = [tuple(int(x) for x in b) for b in get_fock_space_basis(d=len(rest), cutoff=n + 1)]
                    try:
                        for v in basis:
                            pc = complex(st_p.get_particle_detection_probability(np.array(v)))
                            if abs(pc.imag) > 1e-9 or abs(pc.real - exp.get(v, 0.0)) > 1e-9:
                                ctx.report(f"C05:dist:detection_probability:{tag}", f"partially distinguishable photons ({ph['kind']} overlap): P({v}) = {pc:.9f}, definition gives {exp.get(v, 0.0):.9f} "
                                           f"after {name} on {ph['occ']}" + (f" post-selected on mode {post[0]} = {post[1]}" if post else ""), rp)
                                break
                    except NotImplementedCalculation:
                        counters["not_implemented"] += 1
                    except Exception as e:  # noqa
                        ctx.report(f"C05:dist:detection_probability-raises:{tag}:{type(e).__name__}", f"get_particle_detection_probability raised {type(e).__name__}: {str(e)[:80]} after {name}", rp)
                    try:
                        table = {tuple(int(x) for x in k): float(np.real(v)) for k, v in st_p.fock_probabilities_map.items()}
                        bad = [v for v in basis if abs(table.get(v, 0.0) - exp.get(v, 0.0)) > 1e-9]
                        if bad:
                            cplx = "complex-transmission" if np.abs(np.imag(np.asarray(st_p.interferometer))).max() > 1e-12 else "real-transmission"
                            key = (f"C05:table:lossy:{'post' if post else 'nopost'}:{cplx}" if lossy else f"C05:dist:table:{tag}:{'post' if post else 'nopost'}")
                            ctx.report(key, f"partially distinguishable photons ({ph['kind']} overlap): fock_probabilities_map[{bad[0]}] = {table.get(bad[0], 0.0):.9f}, definition gives "
                                       f"{exp.get(bad[0], 0.0):.9f} after {name} on {ph['occ']} (table sums to {sum(table.values()):.6f}, expected {sum(exp.values()):.6f})", rp)
                        elif abs(float(st_p.norm) - sum(exp.values())) > 1e-9:
                            ctx.report(f"C05:dist:norm:{tag}", f"norm = {float(st_p.norm):.9f}, definition gives {sum(exp.values()):.9f} after {name} on {ph['occ']}", rp)
                    except NotImplementedCalculation:
                        counters["not_implemented"] += 1
                    except Exception as e:  # noqa
                        ctx.report(f"C05:dist:table-raises:{tag}:{type(e).__name__}", f"fock_probabilities_map raised {type(e).__name__}: {str(e)[:80]} after {name} on {ph['occ']}", rp)
                    # marginal of one surviving mode
                    if len(rest) > 1:
                        i = rng.randrange(len(rest))
                        try:
                            mg = st_p.get_marginal_fock_probabilities(modes=(rest[i],))
                            mexp = {}
                            for v, p in exp.items():
                                mexp[(v[i],)] = mexp.get((v[i],), 0.0) + p
                            mgot = {tuple(int(x) for x in k): float(np.real(v)) for k, v in mg.items()}
                            w = max(set(mexp) | set(mgot), key=lambda o: abs(mgot.get(o, 0.0) - mexp.get(o, 0.0)))
                            if abs(mgot.get(w, 0.0) - mexp.get(w, 0.0)) > 1e-9:
                                ctx.report(f"C05:dist:marginal:{tag}", f"partially distinguishable photons: marginal P_{rest[i]}({w}) = {mgot.get(w, 0.0):.9f}, definition {mexp.get(w, 0.0):.9f} after {name} on {ph['occ']}", rp)
                        except NotImplementedCalculation:
                            counters["not_implemented"] += 1
                        except Exception as e:  # noqa
                            ctx.report(f"C05:dist:marginal-raises:{tag}:{type(e).__name__}", f"get_marginal_fock_probabilities raised {type(e).__name__}: {str(e)[:80]} after {name}", rp)
                ctx.validated()


def run(ctx):
    import piquasso as pq
    from piquasso.api.exceptions import NotImplementedCalculation
    from piquasso._math.fock import get_fock_space_basis
    quick = ctx.tier == "quick"
    rng = random.Random(ctx.seed)
    plans = [(3, 5, 3, 2), (3, 3, 2, 3)] if quick else [(3, 6, 3, 3)]
    if not quick:
        plans += [(2, 6, 3, 4), (3, 10, 4, 3)]
    counters = {"states": 0, "not_implemented": 0, "lossy": 0, "postselected": 0}
    for (d, ng, nin, depth) in plans:
        gates = L.passive_catalogue(d, rng=rng, size=ng, with_kerr=False)
        losses = [L.loss(i, t) for i in range(d) for t in rng.sample(["4/5", "3/5", "1/sqrt2"], 1)]
        meassets = [(i,) for i in range(d)] + ([(1, 0)] if d >= 2 else []) + ([(2, 0)] if d >= 3 else [])
        inputs = L.inputs(d, 3, rng=rng, size=nin)
        recs = explore(ctx, d, gates, losses, meassets, inputs, depth)
        ctx.notes.setdefault("explorations", []).append({"d": d, "gates": [g["name"] + str(g["modes"]) for g in gates], "losses": [g["name"] + str(g["modes"]) for g in losses],
                                                         "postselection_sets": meassets, "inputs": inputs, "depth": depth, "states_exported": len(recs)})
        for rec in recs:
            inp, steps, probs, amps, nsys, nanc = decode(rec)
            n = sum(inp)
            # post-selection only on states that still have modes left
            if nsys == 0:
                continue
            name = []
            with warnings.catch_warnings():
                warnings.simplefilter("ignore")
                ins = [pq.NumberState(inp).on_modes(*range(d))]
                dil = [pq.NumberState(list(inp) + [0] * nanc).on_modes(*range(d + nanc))]
                anc = d
                lossy = post = False
                for st in steps:
                    if "gate" in st:
                        g = gates[st["gate"] - 1]
                        ins.append(g["mk"](pq).on_modes(*g["modes"]))
                        dil.append(g["mk"](pq).on_modes(*g["modes"]))
                        name.append(g["name"] + str(g["modes"]))
                    elif "loss" in st:
                        g = losses[st["loss"] - 1]
                        ins.append(g["mk"](pq).on_modes(*g["modes"]))
                        dil.append(pq.Beamsplitter(theta=math.acos(g["t"]), phi=0.0).on_modes(g["modes"][0], anc))
                        anc += 1
                        lossy = True
                        name.append(g["name"] + str(g["modes"]))
                    else:
                        ins.append(pq.PostSelectPhotons(photon_counts=tuple(st["outcome"])).on_modes(*st["modes"]))
                        dil.append(pq.PostSelectPhotons(photon_counts=tuple(st["outcome"])).on_modes(*st["modes"]))
                        post = True
                        name.append(f"PostSelect{tuple(st['modes'])}={tuple(st['outcome'])}")
                key = (inp, tuple(name))
                ctx.case(key, nontrivial=len(steps) > 0)
                counters["states"] += 1
                counters["lossy"] += lossy
                counters["postselected"] += post
                replay = {"input": inp, "steps": name}
                sig = "/".join(sorted({x.split("(")[0] for x in name}))
                try:
                    st_p = pq.PassiveSimulator(d=d, config=pq.Config(cutoff=n + 1)).execute(pq.Program(instructions=ins)).state
                except Exception as e:  # noqa
                    ctx.report(f"C05:execute-raises:{sig}:{type(e).__name__}", f"PassiveSimulator raised {type(e).__name__}: {str(e)[:100]} for {name} on {inp}", replay)
                    continue
                basis = [tuple(int(x) for x in b) for b in get_fock_space_basis(d=nsys, cutoff=n + 1)]
                # (a) single-outcome probabilities
                try:
                    for v in basis:
                        pc = complex(st_p.get_particle_detection_probability(np.array(v)))
                        p = pc.real
                        e = probs.get(v, 0.0)
                        if abs(pc.imag) > 1e-9:
                            ctx.report(f"C05:detection_probability-complex:{'lossy' if lossy else 'lossless'}", f"P({v}) = {pc} has an imaginary part after {name} on {inp}", replay)
                            break
                        if abs(p - e) > 1e-9:
                            ctx.report(f"C05:detection_probability:{sig}", f"P({v}) = {p:.9f} but the dilation gives {e:.9f} after {name} on {inp}", replay)
                            break
                except NotImplementedCalculation:
                    counters["not_implemented"] += 1
                except Exception as e:  # noqa
                    ctx.report(f"C05:detection_probability-raises:{sig}:{type(e).__name__}", f"get_particle_detection_probability raised {type(e).__name__}: {str(e)[:80]} after {name}", replay)
                # (b) probability table, norm
                try:
                    table = st_p.fock_probabilities_map
                    bad = [v for v in basis if abs(float(table.get(v, 0.0)) - probs.get(v, 0.0)) > 1e-9]
                    if bad or any(float(x) < -1e-12 for x in table.values()):
                        v = bad[0] if bad else None
                        cplx = "complex-transmission" if np.abs(np.imag(np.asarray(st_p.interferometer))).max() > 1e-12 else "real-transmission"
                        ctx.report(f"C05:table:{'lossy' if lossy else 'lossless'}:{'post' if post else 'nopost'}:{cplx}",
                                   f"fock_probabilities_map[{v}] = {float(table.get(v, 0.0)) if v else 'negative entry'} but the dilation gives {probs.get(v, 0.0) if v else ''} after {name} on {inp} (table sums to {sum(map(float, table.values())):.6f})", replay)
                    nrm = float(st_p.norm)
                    if abs(nrm - sum(probs.values())) > 1e-9:
                        cplx = "complex-transmission" if np.abs(np.imag(np.asarray(st_p.interferometer))).max() > 1e-12 else "real-transmission"
                        ctx.report(f"C05:norm:{'lossy' if lossy else 'lossless'}:{'post' if post else 'nopost'}:{cplx}", f"norm = {nrm:.9f}, dilation gives {sum(probs.values()):.9f} after {name}", replay)
                except NotImplementedCalculation:
                    counters["not_implemented"] += 1
                except Exception as e:  # noqa
                    ctx.report(f"C05:table-raises:{'lossy' if lossy else 'lossless'}:{'post' if post else 'nopost'}:{type(e).__name__}",
                               f"fock_probabilities_map raised {type(e).__name__}: {str(e)[:80]} after {name} on {inp}", replay)
                # (c) marginals on every proper subset
                for k in range(1, nsys):
                    for sub in itertools.combinations(range(nsys), k):
                        try:
                            # the argument addresses the modes by their ORIGINAL labels (post-selected modes excluded)
                            mg = st_p.get_marginal_fock_probabilities(modes=tuple(rec["live"][i] for i in sub))
                        except NotImplementedCalculation:
                            counters["not_implemented"] += 1
                            continue
                        except Exception as e:  # noqa
                            ctx.report(f"C05:marginal-raises:{sig}:{type(e).__name__}", f"get_marginal_fock_probabilities({sub}) raised {type(e).__name__}: {str(e)[:80]} after {name}", replay)
                            continue
                        exp = {}
                        for v, p in probs.items():
                            w = tuple(v[i] for i in sub)
                            exp[w] = exp.get(w, 0.0) + p
                        for w in set(exp) | {tuple(int(x) for x in kk) for kk in mg}:
                            got = float(mg.get(w, 0.0)) if w in mg else float(mg.get(tuple(np.int64(x) for x in w), 0.0))
                            if abs(got - exp.get(w, 0.0)) > 1e-9:
                                ctx.report(f"C05:marginal:{sig}", f"marginal P{sub}({w}) = {got:.9f}, dilation {exp.get(w, 0.0):.9f} after {name} on {inp}", replay)
                                break
                # (e) state vector of lossless states
                if not lossy:
                    try:
                        sv = np.asarray(st_p.state_vector)
                        exp = np.array([amps.get(v, 0.0) for v in basis], dtype=complex)
                        if sv.shape == exp.shape and np.abs(sv - exp).max() > 1e-9:
                            ctx.report(f"C05:state_vector:{sig}", f"state_vector differs from the exact state after {name} on {inp}", replay)
                    except NotImplementedCalculation:
                        counters["not_implemented"] += 1
                    except Exception as e:  # noqa
                        ctx.report(f"C05:state_vector-raises:{sig}:{type(e).__name__}", f"state_vector raised {type(e).__name__}: {str(e)[:80]} after {name}", replay)
                # (f) the property's own oracle: the lossless dilation on the pure Fock simulator
                try:
                    st_d = pq.PureFockSimulator(d=d + nanc, config=pq.Config(cutoff=n + 1)).execute(pq.Program(instructions=dil)).state
                    dbasis = [tuple(int(x) for x in b) for b in get_fock_space_basis(d=nsys + nanc, cutoff=int(st_d._config.cutoff))]
                    sv = np.asarray(st_d.state_vector)
                    exp = np.array([amps.get(v, 0.0) for v in dbasis], dtype=complex)
                    if sv.shape != exp.shape or np.abs(sv - exp).max() > 1e-9:
                        ctx.report(f"C05:dilation-purefock:{sig}", f"PureFockSimulator on the dilation differs from the exact state after {name} on {inp}", replay)
                except Exception as e:  # noqa
                    ctx.report(f"C05:dilation-raises:{sig}:{type(e).__name__}", f"dilation on PureFockSimulator raised {type(e).__name__}: {str(e)[:80]} after {name}", replay)
            ctx.validated()
        if recs:
            inp, steps, probs, amps, nsys, nanc = decode(recs[-1])
            ctx.sample({"input": inp, "steps": steps, "system_probabilities": {str(k): round(v, 9) for k, v in list(probs.items())[:5]}})
    ctx.notes["counters"] = counters
    ctx.tick("dilation")
    part_distinguishable(ctx, pq, quick, rng)
    ctx.tick("distinguishable")
    ctx.assumptions += ["internal states of partially distinguishable photons on the lattice: uniform overlaps 16/25, 9/25, 1/2 and Gram matrices of Gaussian-integer vectors in two components",
                        "lattice transmissivities 3/5, 4/5, 1/sqrt2"]
