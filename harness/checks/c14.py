"""C14 — Gaussian states are hbar-invariant and representation-consistent.

PqGaussian.tla carries a Gaussian state as exact ladder moments (mu, Gam) and DERIVES the quadrature representations with an
explicit hbar (x = sqrt(hbar/2)(a + a^dagger), p = -i sqrt(hbar/2)(a - a^dagger); sigma_xxpp = hbar Re(W0 Gam W0^dagger), mean =
sqrt(2 hbar)(Re mu, Im mu)); TLC checks Hermiticity / CCR on every reachable state and exports, for hbar in {1/2, 2, 8}, the exact
representations.  Replay on lattice states (pure, squeezed, entangled, displaced; mixed through thermal preparations):
getters of every representation against the exact values; setter o getter round trips; reduced() on every ordered mode
subset and rotated() on lattice angles against the spec's sub-blocks / phase rules; dimensionless observables (Fock
probabilities, purity, fidelity, threshold probabilities, density matrix, mean photon number) equal across hbar and, where the
spec has a closed form (mean photon number), equal to it.
"""
import itertools
import random
import warnings

import numpy as np

from .. import lattice as L
from .. import gaussian_replay as GR


def run(ctx):
    import piquasso as pq
    quick = ctx.tier == "quick"
    rng = random.Random(ctx.seed + 14)
    plans = [(2, 12 if quick else 24, 2), (3, 8 if quick else 16, 2)]
    n_states = 0
    for (d, ng, depth) in plans:
        gates = L.gaussian_catalogue(d, rng=rng, size=ng)
        recs = GR.explore(ctx, d, gates, depth)
        if len(recs) > (40 if quick else 400):
            recs = rng.sample(recs, 40 if quick else 400)
        perm = GR.xxpp_to_xpxp_perm(d)
        other = None
        for rec in recs:
            mu, Gam, reps, nbar = GR.decode(rec, d)
            idx = [i - 1 for i in rec["hist"]]
            names = [gates[i]["name"] + str(gates[i]["modes"]) for i in idx]
            sig = "/".join(n.split("(")[0] for n in names) or "vacuum"
            C, G = Gam[d:, d:], Gam[:d, d:]
            tol = 1e-9 * max(1.0, np.abs(Gam).max())
            per_hbar = {}
            for h in L.HBARS:
                hb = h[4]
                ctx.case((tuple(names), hb), nontrivial=len(idx) > 0)
                replay = {"gates": names, "hbar": hb}
                with warnings.catch_warnings():
                    warnings.simplefilter("ignore")
                    try:
                        st = GR.build_state(pq, gates, idx, d, hb, cutoff=4)
                    except Exception as e:  # noqa
                        ctx.report(f"C14:execute-raises:{sig}:{type(e).__name__}", f"{type(e).__name__}: {str(e)[:100]}", replay)
                        continue

                    def cmp(name, got, exp, t=tol):
                        got, exp = np.asarray(got), np.asarray(exp)
                        if got.shape != exp.shape or np.abs(got - exp).max() > t:
                            ctx.report(f"C14:{name}:hbar={hb}", f"{name} of the state after {names} (hbar={hb}) differs from the exact representation "
                                       f"(max deviation {np.abs(got - exp).max() if got.shape == exp.shape else 'shape mismatch'})", replay)
                            return False
                        return True
                    # representations
                    cmp("complex_displacement", st.complex_displacement, np.concatenate([mu, mu.conj()]))
                    # documented: sigma_c = (1 / hbar) W sigma_xxpp W^dagger with W = [[I, iI], [I, -iI]] / sqrt2
                    Wm = np.block([[np.identity(d), 1j * np.identity(d)], [np.identity(d), -1j * np.identity(d)]]) / np.sqrt(2)
                    cmp("complex_covariance", st.complex_covariance, Wm @ reps[hb][1] @ Wm.conj().T / hb)
                    cmp("xxpp_mean_vector", st.xxpp_mean_vector, reps[hb][0])
                    cmp("xpxp_covariance_matrix", st.xpxp_covariance_matrix, reps[hb][1][np.ix_(perm, perm)])
                    for i in range(d):
                        cmp("mean_photon_number", st.mean_photon_number(modes=(i,)), nbar[i])
                    # setter o getter: write the exact representation into a fresh state, read the ladder moments back
                    for rep in ("xxpp", "xpxp"):
                        fresh = pq.GaussianSimulator(d=d, config=pq.Config(hbar=hb)).create_initial_state()
                        try:
                            if rep == "xxpp":
                                fresh.xxpp_covariance_matrix = reps[hb][1].copy()
                                fresh.xxpp_mean_vector = reps[hb][0].copy()
                            else:
                                fresh.xpxp_covariance_matrix = reps[hb][1][np.ix_(perm, perm)].copy()
                                fresh.xpxp_mean_vector = reps[hb][0][perm].copy()
                            ok = cmp(f"setter:{rep}:_m", fresh._m, mu) and cmp(f"setter:{rep}:_C", fresh._C, C) and cmp(f"setter:{rep}:_G", fresh._G, G)
                        except Exception as e:  # noqa
                            ctx.report(f"C14:setter-raises:{rep}:{type(e).__name__}", f"setting the {rep} representation raised {type(e).__name__}: {str(e)[:100]} (state after {names}, hbar={hb})", replay)
                    # reduced on every ordered subset, rotated on lattice angles
                    for k in range(1, d + 1):
                        for sub in itertools.permutations(range(d), k):
                            if quick and rng.random() < 0.5:
                                continue
                            r = st.reduced(sub)
                            ix = list(sub)
                            if not (cmp(f"reduced:_m", r._m, mu[ix]) and cmp("reduced:_C", r._C, C[np.ix_(ix, ix)]) and cmp("reduced:_G", r._G, G[np.ix_(ix, ix)])):
                                break
                            sub2 = ix + [m + d for m in ix]
                            cmp("reduced:xxpp_covariance_matrix", r.xxpp_covariance_matrix, reps[hb][1][np.ix_(sub2, sub2)])
                    for kphi in (1, 2, 3):
                        phi = kphi * np.pi / 2
                        r = st.rotated(phi)
                        ph = [1, -1j, -1, 1j][kphi % 4]          # exp(-i phi)
                        cmp("rotated:_m", r._m, mu * ph)
                        cmp("rotated:_C", r._C, C)
                        cmp("rotated:_G", r._G, G * ph * ph)
                    # dimensionless observables
                    obs = {}
                    try:
                        obs["fock_probabilities"] = np.asarray(st.fock_probabilities)
                        obs["purity"] = np.asarray(st.get_purity())
                        obs["mean_photon_number"] = np.asarray(st.mean_photon_number())
                        obs["threshold(0..)"] = np.asarray([st.get_threshold_detection_probability(np.array(o)) for o in itertools.product((0, 1), repeat=d)])
                        obs["density_matrix"] = np.asarray(st.density_matrix)
                        if other is not None and other[0] == d:
                            obs["fidelity"] = np.asarray(st.fidelity(GR.build_state(pq, gates, other[1], d, hb, cutoff=4)))
                    except Exception as e:  # noqa
                        ctx.report(f"C14:observable-raises:{type(e).__name__}:hbar={hb}", f"{type(e).__name__}: {str(e)[:100]} (state after {names}, hbar={hb})", replay)
                    per_hbar[hb] = obs
            ref = per_hbar.get(2.0)
            if ref:
                for hb, obs in per_hbar.items():
                    for k, v in obs.items():
                        if k in ref and (v.shape != ref[k].shape or np.abs(v - ref[k]).max() > 1e-8 * max(1.0, np.abs(ref[k]).max())):
                            ctx.report(f"C14:hbar-dependence:{k}:hbar={hb}", f"{k} of the state after {names} depends on hbar: max difference between hbar={hb} and hbar=2 is "
                                       f"{np.abs(v - ref[k]).max() if v.shape == ref[k].shape else 'shape'}", {"gates": names, "hbar": hb, "observable": k})
            other = (d, idx)
            n_states += 1
            ctx.validated()
        if recs:
            ctx.sample({"gates": [gates[i - 1]["name"] + str(gates[i - 1]["modes"]) for i in recs[-1]["hist"]], "exact_nbar": recs[-1]["nbar"], "hbars": [h[4] for h in L.HBARS]})
    ctx.notes["states_checked"] = n_states
    # ---- sampling is hbar-free: photon-number and threshold samples are functions of the hbar-free moments and of the random stream only,
    # so the same seed must give the same samples for every hbar (deterministic comparison, no statistics); pure and mixed states
    n_samp = 0
    cat = L.gaussian_catalogue(2)
    for trial in range(6 if quick else 40):
        seq = [rng.choice(cat) for _ in range(rng.choice([1, 2, 3]))]
        names = [g["name"] + str(g["modes"]) for g in seq]
        for mname, mk in (("ParticleNumberMeasurement", lambda: pq.ParticleNumberMeasurement()), ("ThresholdMeasurement", lambda: pq.ThresholdMeasurement())):
            modes = rng.choice([(0,), (1,), (0, 1), (1, 0)])
            ref = None
            for h in (L.HBARS[1], L.HBARS[0], L.HBARS[2]):          # hbar = 2 first
                hb = h[4]
                with warnings.catch_warnings():
                    warnings.simplefilter("ignore")
                    ins = [pq.Vacuum()] + [g["mk"](pq).on_modes(*g["modes"]) for g in seq] + [mk().on_modes(*modes)]
                    try:
                        r = pq.GaussianSimulator(d=2, config=pq.Config(hbar=hb, seed_sequence=17, cutoff=6, measurement_cutoff=5)).execute(pq.Program(instructions=ins), shots=12)
                        smp = [tuple(int(x) for x in sm) for sm in r.samples]
                    except Exception as e:  # noqa
                        if hb == 2.0:
                            break
                        ctx.report(f"C14:sampling:raises:{mname}:{type(e).__name__}:hbar={hb}", f"{mname} on {modes} after {names} raises {type(e).__name__} for hbar={hb} but not for hbar=2: {str(e)[:100]}",
                                   {"gates": names, "hbar": hb, "modes": modes})
                        continue
                ctx.case(("sampling", tuple(names), mname, modes, hb))
                n_samp += 1
                if ref is None:
                    ref = smp
                elif smp != ref:
                    ctx.report(f"C14:sampling:hbar-dependence:{mname}:hbar={hb}", f"{mname} on {modes} after {names}: the samples drawn with the same seed differ between hbar=2 and hbar={hb} "
                               f"(mean photon number per shot {np.mean([sum(x) for x in ref]):.2f} vs {np.mean([sum(x) for x in smp]):.2f})", {"gates": names, "hbar": hb, "modes": modes})
                else:
                    ctx.validated()
    ctx.notes["sampling_runs"] = n_samp
    ctx.assumptions += ["Fock probabilities / fidelity / threshold probabilities are compared across hbar (no exact closed form in the spec yet)"]
