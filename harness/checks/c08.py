"""C08 — every reachable state is a physical quantum state.

Spec side: PqOptics.tla invariants NormIsOne (unitary gates and the loss dilation preserve the norm exactly) and
NormAtMostOne (projections only lower it) hold in every reachable spec state (TLC); the exact norm of every exported
state is compared, after EVERY step, with the norm / trace of the PureFock, Fock and Passive simulators (1e-12 for
number-conserving steps).  Code side: monitors evaluated after every instruction of lattice behaviours and of natural
programs on all simulators, hbar in {1/2, 2, 8}: Gaussian covariance real, symmetric, sigma/hbar + i Omega >= 0, purity in
(0,1] and exactly 1 for pure states; Fock density matrices Hermitian, positive, trace <= 1; pure-state norms <= 1;
fermionic correlation spectra in [0,1]; every reported probability in [0,1]; post-measurement states again physical.
"""
import math
import random
import warnings

import numpy as np

from .. import lattice as L
from .. import optics_replay as OR
from . import c05 as C05


def monitor_state(ctx, st, where, expect_pure=None, expect_norm=None, tol=1e-9):
    """generic physicality monitors; returns nothing, reports through ctx"""
    cls = type(st).__name__
    if "fermionic" in type(st).__module__:
        cls = "fermionic." + cls
    sig = f"{cls}:{where.split(':')[0]}"

    def bad(kind, msg):
        ctx.report(f"C08:{kind}:{sig}", f"{cls} after {where}: {msg}", {"state": cls, "where": where})
    try:
        if cls == "GaussianState":
            hbar = st._config.hbar
            cov = np.asarray(st.xpxp_covariance_matrix)
            if np.iscomplexobj(cov) and np.abs(cov.imag).max() > tol:
                bad("cov-complex", "covariance matrix is not real")
            if np.abs(cov - cov.T).max() > tol:
                bad("cov-asymmetric", f"covariance matrix is not symmetric ({np.abs(cov - cov.T).max():.3g})")
            d = st.d
            omega = np.kron(np.identity(d), np.array([[0, 1], [-1, 0]]))
            ev = np.linalg.eigvalsh(cov.real / hbar + 1j * omega)
            if ev.min() < -1e-8:
                bad("uncertainty", f"sigma/hbar + i Omega has eigenvalue {ev.min():.3g} < 0")
            pur = float(st.get_purity())
            det = np.linalg.det(cov.real / hbar)
            true_pur = 1.0 / math.sqrt(det)
            if not (0.0 < pur <= 1.0 + 1e-9) or abs(pur - true_pur) > 1e-7 * max(1, true_pur):
                bad(f"purity:hbar={hbar}", f"get_purity() = {pur:.6g} but 1/sqrt(det(sigma/hbar)) = {true_pur:.6g} (hbar = {hbar})")
            if expect_pure and not st.is_pure():
                bad(f"is_pure:hbar={hbar}", f"a pure Gaussian state reports is_pure() = False (hbar = {hbar})")
            st.validate()
        elif cls == "PureFockState":
            nrm = float(st.norm)
            if nrm > 1 + tol:
                bad("norm>1", f"norm = {nrm:.12f} > 1")
            if expect_norm is not None and abs(nrm - expect_norm) > 1e-12 + 1e-12 * expect_norm:
                bad("norm", f"norm = {nrm:.15f}, exact value {expect_norm:.15f}")
            p = np.asarray(st.fock_probabilities)
            if p.min() < -tol or p.max() > 1 + tol:
                bad("probability-range", f"fock_probabilities outside [0,1]: [{p.min():.3g}, {p.max():.3g}]")
            if abs(float(st.get_purity()) - 1.0) > 1e-9 and abs(nrm - 1) < 1e-9:
                bad("purity", f"purity of a normalised pure state = {float(st.get_purity()):.9f}")
        elif cls == "FockState":
            rho = np.asarray(st.density_matrix)
            if np.abs(rho - rho.conj().T).max() > tol:
                bad("not-hermitian", f"density matrix not Hermitian ({np.abs(rho - rho.conj().T).max():.3g})")
            ev = np.linalg.eigvalsh((rho + rho.conj().T) / 2)
            if ev.min() < -1e-9:
                bad("not-positive", f"density matrix has eigenvalue {ev.min():.3g}")
            tr = float(np.real(np.trace(rho)))
            if tr > 1 + tol:
                bad("trace>1", f"trace = {tr:.12f}")
            if expect_norm is not None and abs(tr - expect_norm) > 1e-10:
                bad("trace", f"trace = {tr:.12f}, exact value {expect_norm:.12f}")
            pur = float(np.real(st.get_purity()))
            if pur > 1 + 1e-9 or pur <= 0:
                bad("purity-range", f"purity = {pur:.9f}")
        elif cls == "PassiveState":
            if expect_norm is not None:
                nrm = float(np.real(st.norm))
                if abs(nrm - expect_norm) > 1e-9:
                    bad("norm", f"norm = {nrm:.12f}, exact value {expect_norm:.12f}")
        elif cls in ("GaussianState_f", ):
            pass
        if cls.startswith("fermionic."):
            if hasattr(st, "correlation_matrix"):
                g = np.asarray(st.correlation_matrix)
                ev = np.linalg.eigvalsh((g + g.conj().T) / 2)
                if ev.min() < -1e-9 or ev.max() > 1 + 1e-9:
                    bad("correlation-spectrum", f"correlation matrix spectrum [{ev.min():.3g}, {ev.max():.3g}] not in [0,1]")
            if hasattr(st, "fock_probabilities"):
                p = np.asarray(st.fock_probabilities)
                if p.min() < -tol or p.max() > 1 + tol:
                    bad("probability-range", f"fermionic fock_probabilities outside [0,1] or not summing to one ({p.sum():.9f})")
    except Exception as e:  # noqa
        from piquasso.api.exceptions import InvalidState
        if isinstance(e, InvalidState):
            bad("validate", f"validate() raised InvalidState: {str(e)[:100]}")
        elif type(e).__name__ in ("NotImplementedCalculation", "NotImplementedError"):
            pass
        else:
            bad("monitor-raises:" + type(e).__name__, f"{type(e).__name__}: {str(e)[:100]}")


class StepMonitor:
    """wraps Simulator._get_simulation_step: monitors every state returned by every simulation step"""

    def __init__(self, ctx, label, pure=False):
        self.ctx, self.label, self.pure, self.n = ctx, label, pure, 0

    def __enter__(self):
        from piquasso.api.simulator import Simulator
        self.S = Simulator
        self.old = Simulator.__dict__["_get_simulation_step"]
        mon = self

        def _get(sim, instruction):
            step = mon.old(sim, instruction)

            def wrapped(state, ins, shots=None, **kw):
                subs = step(state, ins, shots=shots, **kw)
                for b in subs:
                    if b.state is not None:
                        mon.n += 1
                        monitor_state(mon.ctx, b.state, f"{type(ins).__name__}:{mon.label}", expect_pure=mon.pure and "Measurement" not in type(ins).__name__)
                return subs
            return wrapped
        Simulator._get_simulation_step = _get
        return self

    def __exit__(self, *a):
        self.S._get_simulation_step = self.old


def run(ctx):
    import piquasso as pq
    from .. import engine_natural as EN
    quick = ctx.tier == "quick"
    rng = random.Random(ctx.seed)
    # ---- lattice behaviours with loss and projections: exact norms after every step
    d = 3
    gates = L.passive_catalogue(d, rng=rng, size=5, with_kerr=True)
    losses = [L.loss(i, "4/5") for i in range(d)]
    meassets = [(0,), (2,), (1, 0)]
    inputs = L.inputs(d, 3, rng=rng, size=3)
    recs = C05.explore(ctx, d, [g for g in gates], losses, meassets, inputs, 2 if quick else 3)
    n_states = 0
    for rec in recs:
        inp, steps, probs, amps, nsys, nanc = C05.decode(rec)
        n = sum(inp)
        exact_norm = sum(abs(a) ** 2 for a in amps.values())
        with warnings.catch_warnings():
            warnings.simplefilter("ignore")
            dil = [pq.NumberState(list(inp) + [0] * nanc).on_modes(*range(d + nanc))]
            dilf = [pq.DensityMatrix(ket=list(inp) + [0] * nanc, bra=list(inp) + [0] * nanc).on_modes(*range(d + nanc))]
            pas = [pq.NumberState(inp).on_modes(*range(d))]
            anc = d
            name = []
            fock_ok = True
            for st in steps:
                if "gate" in st:
                    g = gates[st["gate"] - 1]
                    for prog in (dil, dilf, pas):
                        prog.append(g["mk"](pq).on_modes(*g["modes"]))
                    name.append(g["name"])
                elif "loss" in st:
                    g = losses[st["loss"] - 1]
                    for prog in (dil, dilf):
                        prog.append(pq.Beamsplitter(theta=math.acos(g["t"]), phi=0.0).on_modes(g["modes"][0], anc))
                    pas.append(g["mk"](pq).on_modes(*g["modes"]))
                    anc += 1
                    name.append(g["name"])
                else:
                    dil.append(pq.PostSelectPhotons(photon_counts=tuple(st["outcome"])).on_modes(*st["modes"]))
                    pas.append(pq.PostSelectPhotons(photon_counts=tuple(st["outcome"])).on_modes(*st["modes"]))
                    fock_ok = False          # FockSimulator has no PostSelectPhotons
                    name.append("PostSelect")
            where = "/".join(name) or "input"
            ctx.case((inp, tuple(name), repr(steps)))
            try:
                s1 = pq.PureFockSimulator(d=d + nanc, config=pq.Config(cutoff=n + 1)).execute(pq.Program(instructions=dil)).state
                monitor_state(ctx, s1, where, expect_norm=exact_norm)
                if fock_ok and rng.random() < 0.5:
                    s2 = pq.FockSimulator(d=d + nanc, config=pq.Config(cutoff=n + 1)).execute(pq.Program(instructions=dilf)).state
                    monitor_state(ctx, s2, where, expect_norm=exact_norm)
                if all(("gate" not in st) or gates[st["gate"] - 1]["passive"] for st in steps):
                    s3 = pq.PassiveSimulator(d=d, config=pq.Config(cutoff=n + 1)).execute(pq.Program(instructions=pas)).state
                    monitor_state(ctx, s3, where, expect_norm=exact_norm)
            except Exception as e:  # noqa
                ctx.report(f"C08:execute-raises:{type(e).__name__}:{where}", f"{type(e).__name__}: {str(e)[:100]} in {where} on {inp}", {"input": inp, "steps": name})
            n_states += 1
            ctx.validated()
    ctx.notes["lattice_states_with_exact_norm"] = n_states
    if recs:
        ctx.sample({"input": C05.decode(recs[-1])[0], "steps": C05.decode(recs[-1])[1], "exact_norm": sum(abs(a) ** 2 for a in C05.decode(recs[-1])[3].values())})
    # ---- Gaussian states for several hbar: pure and mixed, after every instruction
    for hbar in (0.5, 2.0, 8.0) if not quick else (0.5, 2.0, 8.0):
        for k in range(4 if quick else 16):
            with warnings.catch_warnings():
                warnings.simplefilter("ignore")
                dd = rng.choice([1, 2, 3])
                ins = [pq.Vacuum()]
                pure = True
                for _ in range(rng.randint(1, 4)):
                    m = rng.randrange(dd)
                    c = rng.random()
                    if c < 0.25:
                        ins.append(pq.Squeezing(r=rng.choice([math.log(2), -math.log(2), math.log(3)]), phi=rng.choice([0, np.pi / 2])).on_modes(m))
                    elif c < 0.45:
                        ins.append(pq.Displacement(r=rng.choice([0.5, 1.0, 2.0]), phi=rng.choice([0, np.pi / 2, np.pi])).on_modes(m))
                    elif c < 0.6 and dd > 1:
                        a, b = rng.sample(range(dd), 2)
                        ins.append(pq.Beamsplitter(theta=rng.choice([np.pi / 4, np.arctan2(4, 3)]), phi=rng.choice([0, np.pi / 2])).on_modes(a, b))
                    elif c < 0.7 and dd > 1:
                        a, b = rng.sample(range(dd), 2)
                        ins.append(pq.Squeezing2(r=math.log(2), phi=rng.choice([0, np.pi / 2])).on_modes(a, b))
                    elif c < 0.8:
                        ins.append(pq.QuadraticPhase(s=rng.choice([1.0, -0.5])).on_modes(m))
                    elif c < 0.9:
                        ins.append(pq.Attenuator(theta=rng.choice([np.pi / 4, np.arctan2(4, 3)]), mean_thermal_excitation=rng.choice([0, 1])).on_modes(m))
                        pure = False
                    else:
                        ins.append(pq.Phaseshifter(phi=rng.choice([np.pi / 2, np.pi / 4])).on_modes(m))
                label = f"hbar={hbar}"
                ctx.case(("gauss", hbar, k, tuple(type(x).__name__ for x in ins)))
                try:
                    with StepMonitor(ctx, label, pure=pure) as mon:
                        pq.GaussianSimulator(d=dd, config=pq.Config(hbar=hbar, cutoff=4)).execute(pq.Program(instructions=ins))
                    ctx.validated()
                except Exception as e:  # noqa
                    ctx.report(f"C08:execute-raises:{type(e).__name__}:gaussian", f"{type(e).__name__}: {str(e)[:100]} ({label})", {"program": [repr(x) for x in ins]})
    # ---- natural adaptive programs on every simulator (post-measurement states included)
    from ..recorder import EngineRecorder
    with StepMonitor(ctx, "natural") as mon:
        EN.run_natural(pq, EngineRecorder(), ctx.seed + 3, per_family=8 if quick else 60)
    ctx.notes["states_monitored_in_natural_runs"] = mon.n
    ctx.tick("monitors")
    # ---- PqGaussian behaviours (every ordered mode tuple, complex squeezing phases, two-mode squeezers followed by single-mode
    # active gates on a correlated spectator, ...): monitors after EVERY instruction and the exact covariance at the end
    from .. import gaussian_replay as GR
    for dd, ng, depth in ((2, 12 if quick else 30, 2), (3, 6 if quick else 14, 2 if quick else 3)):
        ggates = L.gaussian_catalogue(dd, rng=rng, size=ng)
        grecs = GR.explore(ctx, dd, ggates, depth)
        if len(grecs) > (90 if quick else 600):
            grecs = rng.sample(grecs, 90 if quick else 600)
        perm = GR.xxpp_to_xpxp_perm(dd)
        for rec in grecs:
            mu_, Gam_, reps, nbar_ = GR.decode(rec, dd)
            idx = [i - 1 for i in rec["hist"]]
            gnames = [ggates[i]["name"] + str(ggates[i]["modes"]) for i in idx]
            hbar = rng.choice([h[4] for h in L.HBARS])
            pure = not any(ggates[i].get("chan") for i in idx)
            ctx.case(("gauss-lattice", tuple(gnames), hbar), nontrivial=len(idx) > 0)
            try:
                with warnings.catch_warnings():
                    warnings.simplefilter("ignore")
                    with StepMonitor(ctx, f"lattice hbar={hbar}", pure=pure):
                        ins = [pq.Vacuum()] + [ggates[i]["mk"](pq).on_modes(*ggates[i]["modes"]) for i in idx]
                        gst = pq.GaussianSimulator(d=dd, config=pq.Config(hbar=hbar, cutoff=4)).execute(pq.Program(instructions=ins)).state
                cov = np.asarray(gst.xxpp_covariance_matrix)
                if np.abs(cov - reps[hbar][1]).max() > 1e-8 * max(1.0, np.abs(reps[hbar][1]).max()):
                    ctx.report("C08:gaussian:covariance-not-exact:" + "/".join(sorted({n.split("(")[0] for n in gnames})),
                               f"GaussianSimulator covariance after {gnames} (hbar {hbar}) differs from the exact (physical) covariance of the specification", {"gates": gnames, "hbar": hbar})
                else:
                    ctx.validated()
            except Exception as e:  # noqa
                ctx.report(f"C08:execute-raises:{type(e).__name__}:gaussian-lattice", f"{type(e).__name__}: {str(e)[:100]} for {gnames}", {"gates": gnames, "hbar": hbar})
    ctx.tick("gaussian_lattice")
    # post-measurement states of general-dyne measurements: exact conditional state of PqDyne (physical by construction on the spec)
    from . import c02
    with StepMonitor(ctx, "dyne") as mon2:
        c02.part_dyne_spec(ctx, pq, quick, random.Random(ctx.seed + 8), pid="C08")
    ctx.tick("dyne_conditional")
    ctx.assumptions += ["monitors use numpy eigvalsh / det in double precision with 1e-8..1e-12 tolerances",
                        "exact norms only for number-conserving lattice behaviours (PqOptics); Gaussian monitors compare get_purity with 1/sqrt(det(sigma/hbar))"]
