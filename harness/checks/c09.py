"""C09 — results do not depend on the numerical connector.

Decided through the exact reference semantics: every behaviour exported by TLC from PqOptics / PqGaussian / PqFermi is
executed under EVERY connector the simulator accepts (NumPy, TensorFlow, JAX; eagerly, and compiled with tf.function /
jax.jit with the gate parameters as traced arguments) and each result is compared with the exact state of the
specification (phases included).  Two connectors that both equal the exact state equal each other; a connector that
deviates is named.  Gates with no exact Fock representation on the lattice (squeezing, displacement, ... in Fock space,
which go through the polar / logm / Takagi shims) are compared across connectors against the NumPy result at the same
cutoff (secondary: relative, not against the specification).
"""
import random
import warnings

import numpy as np

from ..common import MachineryError
from .. import lattice as L
from .. import optics_replay as OR
from .. import gaussian_replay as GR
from . import c01

TOL = 1e-8


def connectors(pq):
    out = {"numpy": pq.NumpyConnector}
    try:
        import tensorflow  # noqa
        out["tensorflow"] = pq.TensorflowConnector
    except Exception:  # pragma: no cover
        pass
    try:
        import jax
        jax.config.update("jax_enable_x64", True)
        out["jax"] = pq.JaxConnector
    except Exception:  # pragma: no cover
        pass
    return out


def instr(pq, g):
    return g["mk"](pq).on_modes(*g["modes"])


def scalar_params(ins):
    """(name, value) of the real scalar parameters of an instruction (traced in the compiled runs)"""
    return [(k, float(v)) for k, v in ins.params.items() if isinstance(v, (int, float, np.floating)) and not isinstance(v, bool)]


def rebuild(ins, values):
    """the same instruction with its scalar parameters replaced by traced values"""
    names = [k for k, _ in scalar_params(ins)]
    if not names:
        return ins
    params = dict(ins.params)
    for k, v in zip(names, values):
        params[k] = v
    return type(ins)(**params).on_modes(*ins.modes)


def run_compiled(pq, kind, simclass, d, cfgkw, ins, out):
    """execute with every scalar gate parameter as a traced argument of tf.function / jax.jit"""
    flat, counts = [], []
    for i in ins:
        ps = scalar_params(i)
        counts.append(len(ps))
        flat += [v for _, v in ps]

    def body(*vals):
        it = iter(vals)
        new = [rebuild(i, [next(it) for _ in range(c)]) for i, c in zip(ins, counts)]
        conn = pq.TensorflowConnector() if kind == "tf.function" else pq.JaxConnector()
        st = simclass(d=d, config=pq.Config(**cfgkw), connector=conn).execute(pq.Program(instructions=new)).state
        return out(st)
    if kind == "tf.function":
        import tensorflow as tf
        f = tf.function(body)
        return np.asarray(f(*[tf.constant(v, dtype=tf.float64) for v in flat]))
    import jax
    import jax.numpy as jnp
    return np.asarray(jax.jit(body)(*[jnp.asarray(v, dtype=jnp.float64) for v in flat]))


def part_purefock(ctx, pq, conns, quick, rng):
    from piquasso._math.fock import get_fock_space_basis
    counters = ctx.notes.setdefault("purefock", {"states": 0, "runs": 0, "compiled": 0})
    plans = [(2, 7, 3, 2, 3), (3, 6, 3, 2, 2)] if quick else [(2, 12, 5, 3, 3), (3, 10, 4, 3, 3)]
    for (d, ng, nin, depth, nmax) in plans:
        gates = L.passive_catalogue(d, rng=rng, size=ng)
        inputs = L.inputs(d, nmax, rng=rng, size=nin)
        recs = c01.explore(ctx, d, gates, inputs, depth)
        if len(recs) > (60 if quick else 300):
            recs = rng.sample(recs, 60 if quick else 300)
        compiled_budget = 10 if quick else 80
        for rec in recs:
            inp, idx, amps = OR.parse_terms(rec)
            n = sum(inp)
            name = [gates[i]["name"] + str(gates[i]["modes"]) for i in idx]
            sig = "/".join(sorted({x.split("(")[0] for x in name})) or "input"
            basis = get_fock_space_basis(d=d, cutoff=n + 1)
            exp = np.array([amps.get(tuple(int(x) for x in b), 0.0) for b in basis], dtype=complex)
            counters["states"] += 1
            ctx.case((inp, tuple(name)), nontrivial=len(idx) > 0)
            replay = {"input": inp, "gates": name}
            ok = True
            with warnings.catch_warnings():
                warnings.simplefilter("ignore")
                ins = [pq.NumberState(inp).on_modes(*range(d))] + [instr(pq, gates[i]) for i in idx]
                for cname, C in conns.items():
                    try:
                        st = pq.PureFockSimulator(d=d, config=pq.Config(cutoff=n + 1), connector=C()).execute(pq.Program(instructions=ins)).state
                        sv = np.asarray(st.state_vector)
                        p = np.asarray(st.fock_probabilities)
                    except Exception as e:  # noqa
                        ctx.report(f"C09:purefock:{cname}:raises:{type(e).__name__}:{sig}", f"PureFockSimulator with the {cname} connector raised {type(e).__name__}: {str(e)[:120]} for {name} on {inp}", replay)
                        ok = False
                        continue
                    counters["runs"] += 1
                    if sv.shape != exp.shape or np.abs(sv - exp).max() > TOL:
                        j = int(np.argmax(np.abs(sv - exp))) if sv.shape == exp.shape else 0
                        ctx.report(f"C09:purefock:{cname}:state_vector:{sig}", f"PureFockSimulator with the {cname} connector: amplitude of {tuple(int(x) for x in basis[j])} is {sv[j]:.8f}, "
                                   f"exact {exp[j]:.8f} after {name} on {inp}", replay)
                        ok = False
                    elif np.abs(p - np.abs(exp) ** 2).max() > TOL:
                        ctx.report(f"C09:purefock:{cname}:fock_probabilities:{sig}", f"PureFockSimulator with the {cname} connector: fock_probabilities differ from the exact ones after {name} on {inp}", replay)
                        ok = False
                if idx and compiled_budget > 0:
                    compiled_budget -= 1
                    for kind in (["tf.function"] if "tensorflow" in conns else []) + (["jax.jit"] if "jax" in conns else []):
                        try:
                            sv = run_compiled(pq, kind, pq.PureFockSimulator, d, {"cutoff": n + 1}, ins, lambda st: st.state_vector)
                        except Exception as e:  # noqa  -- a program that cannot be traced gives no state at all: not a different one
                            ctx.notes.setdefault("compile_unsupported", {}).setdefault(f"{kind}:{type(e).__name__}:{sig}", 0)
                            ctx.notes["compile_unsupported"][f"{kind}:{type(e).__name__}:{sig}"] += 1
                            continue
                        counters["compiled"] += 1
                        if sv.shape != exp.shape or np.abs(sv - exp).max() > TOL:
                            ctx.report(f"C09:purefock:{kind}:state_vector:{sig}", f"PureFockSimulator compiled with {kind}: state vector differs from the exact state after {name} on {inp} "
                                       f"(max deviation {np.abs(sv - exp).max() if sv.shape == exp.shape else 'shape'})", replay)
                            ok = False
            if ok:
                ctx.validated()
                if idx:
                    ctx.sample({"input": inp, "gates": name, "connectors": sorted(conns), "exact_amplitudes": {str(k): [round(v.real, 9), round(v.imag, 9)] for k, v in list(amps.items())[:4]}}, limit=3)


def small_active_gate(pq, rng, d):
    """an active (or displacement) gate with parameters small enough that a cutoff of 12 loses less than 1e-9 of the norm"""
    ph = rng.choice([0.0, np.pi / 2, np.pi, 3 * np.pi / 2, np.pi / 3, 2.0])
    i = rng.randrange(d)
    j = rng.choice([k for k in range(d) if k != i])
    kind = rng.choice(["Squeezing", "Squeezing2", "Displacement", "QuadraticPhase", "ControlledX", "ControlledZ", "Beamsplitter", "Phaseshifter"])
    r = rng.choice([0.03, 0.06, 0.09])
    if kind == "Squeezing":
        return f"Squeezing({r},{ph:.3f})({i},)", pq.Squeezing(r=r, phi=ph).on_modes(i)
    if kind == "Squeezing2":
        return f"Squeezing2({r},{ph:.3f})({i}, {j})", pq.Squeezing2(r=r, phi=ph).on_modes(i, j)
    if kind == "Displacement":
        return f"Displacement({r},{ph:.3f})({i},)", pq.Displacement(r=r, phi=ph).on_modes(i)
    if kind == "QuadraticPhase":
        return f"QuadraticPhase({r})({i},)", pq.QuadraticPhase(s=r).on_modes(i)
    if kind == "ControlledX":
        return f"ControlledX({r})({i}, {j})", pq.ControlledX(s=r).on_modes(i, j)
    if kind == "ControlledZ":
        return f"ControlledZ({r})({i}, {j})", pq.ControlledZ(s=r).on_modes(i, j)
    if kind == "Beamsplitter":
        return f"Beamsplitter(0.7,{ph:.3f})({i}, {j})", pq.Beamsplitter(theta=0.7, phi=ph).on_modes(i, j)
    return f"Phaseshifter({ph:.3f})({i},)", pq.Phaseshifter(phi=ph).on_modes(i)


def part_active_cross(ctx, pq, conns, quick, rng):
    """gates without an exact Fock representation on the lattice (they go through the polar / logm / Takagi shims of each
    connector): every connector against NumPy at the same cutoff, in the regime where the truncation is negligible
    (norm deficit < 1e-8), so that a difference cannot be a truncation artefact"""
    counters = ctx.notes.setdefault("active_cross", {"programs": 0, "runs": 0, "skipped_truncation": 0})
    d = 2
    for trial in range(14 if quick else 120):
        seq = [small_active_gate(pq, rng, d) for _ in range(rng.choice([1, 2, 3]))]
        name = [x[0] for x in seq]
        sig = "/".join(sorted({x.split("(")[0] for x in name}))
        cutoff = 12
        hbar = rng.choice([h[4] for h in L.HBARS])
        replay = {"gates": name, "cutoff": cutoff, "hbar": hbar}
        ctx.case((tuple(name), cutoff, hbar))
        counters["programs"] += 1
        ref = None
        with warnings.catch_warnings():
            warnings.simplefilter("ignore")
            ins = [pq.Vacuum()] + [x[1] for x in seq]
            for cname, C in conns.items():
                try:
                    st = pq.PureFockSimulator(d=d, config=pq.Config(cutoff=cutoff, hbar=hbar), connector=C()).execute(pq.Program(instructions=ins)).state
                    sv = np.asarray(st.state_vector)
                except Exception as e:  # noqa
                    if cname == "numpy":
                        break
                    ctx.report(f"C09:active:{cname}:raises:{type(e).__name__}:{sig}", f"PureFockSimulator with the {cname} connector raised {type(e).__name__}: {str(e)[:120]} for {name} (NumPy runs)", replay)
                    continue
                counters["runs"] += 1
                if cname == "numpy":
                    if abs(1.0 - np.linalg.norm(sv)) > 1e-8:
                        counters["skipped_truncation"] += 1
                        break
                    ref = sv
                elif ref is not None and (sv.shape != ref.shape or np.abs(sv - ref).max() > 1e-6):
                    ctx.report(f"C09:active:{cname}:state_vector:{sig}", f"PureFockSimulator (cutoff {cutoff}, hbar {hbar}, truncation below 1e-8) with the {cname} connector differs from the NumPy connector after {name} "
                               f"(max deviation {np.abs(sv - ref).max():.3g})", replay)
                else:
                    ctx.validated()


def part_gaussian(ctx, pq, conns, quick, rng):
    if "jax" not in conns:
        return
    counters = ctx.notes.setdefault("gaussian", {"states": 0})
    for d in (2, 3):
        part_gaussian_d(ctx, pq, conns, quick, rng, d, counters)


def part_gaussian_d(ctx, pq, conns, quick, rng, d, counters):
    if d == 2:
        gates = L.gaussian_catalogue(d, rng=rng, size=7 if quick else 12)
        depth = 2 if quick else 3
    else:
        # three modes, depth 3: an active gate followed by passive gates on overlapping pairs (correlated spectator modes)
        cat = L.gaussian_catalogue(d)
        act = [g for g in cat if not g["passive"] and not g.get("chan") and not g["name"].startswith(("Displacement", "PositionDisplacement", "MomentumDisplacement"))]
        pas = [g for g in cat if g["passive"] and len(g["modes"]) == 2]
        gates = rng.sample(act, 1 if quick else 3) + rng.sample(pas, 3 if quick else 5)
        depth = 3
    recs = GR.explore(ctx, d, gates, depth)
    if len(recs) > (45 if quick else 200):
        recs = rng.sample(recs, 45 if quick else 200)
    perm = GR.xxpp_to_xpxp_perm(d)
    for rec in recs:
        mu, Gam, reps, nbar = GR.decode(rec, d)
        idx = [i - 1 for i in rec["hist"]]
        name = [gates[i]["name"] + str(gates[i]["modes"]) for i in idx]
        sig = "/".join(sorted({x.split("(")[0] for x in name})) or "vacuum"
        hbar = rng.choice([h[4] for h in L.HBARS])
        mean, cov = reps[hbar]
        ctx.case((tuple(name), hbar), nontrivial=len(idx) > 0)
        counters["states"] += 1
        replay = {"gates": name, "hbar": hbar}
        with warnings.catch_warnings():
            warnings.simplefilter("ignore")
            ins = [pq.Vacuum()] + [instr(pq, gates[i]) for i in idx]
            for cname in ("numpy", "jax"):
                try:
                    st = pq.GaussianSimulator(d=d, config=pq.Config(hbar=hbar), connector=conns[cname]()).execute(pq.Program(instructions=ins)).state
                    m = np.asarray(st.xxpp_mean_vector)
                    c = np.asarray(st.xxpp_covariance_matrix)
                except Exception as e:  # noqa
                    ctx.report(f"C09:gaussian:{cname}:raises:{type(e).__name__}:{sig}", f"GaussianSimulator with the {cname} connector raised {type(e).__name__}: {str(e)[:120]} for {name}", replay)
                    continue
                scale = max(1.0, np.abs(cov).max())
                if np.abs(m - mean).max() > TOL * scale or np.abs(c - cov).max() > TOL * scale:
                    ctx.report(f"C09:gaussian:{cname}:moments:{sig}", f"GaussianSimulator with the {cname} connector: mean / covariance differ from the exact ones after {name} (hbar {hbar}; "
                               f"max deviation {max(np.abs(m - mean).max(), np.abs(c - cov).max()):.3g})", replay)
                else:
                    ctx.validated()


def part_passive(ctx, pq, conns, quick, rng):
    if "jax" not in conns:
        return
    from piquasso._math.fock import get_fock_space_basis
    counters = ctx.notes.setdefault("passive", {"states": 0})
    d = 3
    gates = L.passive_catalogue(d, rng=rng, size=6, with_kerr=False)
    recs = c01.explore(ctx, d, gates, L.inputs(d, 3, rng=rng, size=3), 2)
    if len(recs) > (40 if quick else 200):
        recs = rng.sample(recs, 40 if quick else 200)
    for rec in recs:
        inp, idx, amps = OR.parse_terms(rec)
        n = sum(inp)
        name = [gates[i]["name"] + str(gates[i]["modes"]) for i in idx]
        sig = "/".join(sorted({x.split("(")[0] for x in name})) or "input"
        ctx.case((inp, tuple(name)), nontrivial=len(idx) > 0)
        counters["states"] += 1
        replay = {"input": inp, "gates": name}
        with warnings.catch_warnings():
            warnings.simplefilter("ignore")
            ins = [pq.NumberState(inp).on_modes(*range(d))] + [instr(pq, gates[i]) for i in idx]
            try:
                st = pq.PassiveSimulator(d=d, config=pq.Config(cutoff=n + 1), connector=conns["jax"]()).execute(pq.Program(instructions=ins)).state
                bad = None
                for b in get_fock_space_basis(d=d, cutoff=n + 1):
                    v = tuple(int(x) for x in b)
                    if sum(v) != n:
                        continue
                    p = float(np.real(st.get_particle_detection_probability(np.array(v))))
                    if abs(p - abs(amps.get(v, 0.0)) ** 2) > TOL:
                        bad = (v, p)
                        break
            except Exception as e:  # noqa
                ctx.report(f"C09:passive:jax:raises:{type(e).__name__}:{sig}", f"PassiveSimulator with the jax connector raised {type(e).__name__}: {str(e)[:120]} for {name} on {inp}", replay)
                continue
            if bad:
                ctx.report(f"C09:passive:jax:detection_probability:{sig}", f"PassiveSimulator with the jax connector: P({bad[0]}) = {bad[1]:.9f}, exact {abs(amps.get(bad[0], 0.0)) ** 2:.9f} after {name} on {inp}", replay)
            else:
                ctx.validated()


def part_fermionic(ctx, pq, conns, quick, rng):
    """PqFermi behaviours on both fermionic simulators under the JAX connector (NumPy is C17's subject): state vector, Majorana covariance"""
    if "jax" not in conns:
        return
    import piquasso.fermionic._utils as FU
    from ..common import run_tlc
    from ..gaussian_replay import qv
    from . import c17
    counters = ctx.notes.setdefault("fermionic", {"states": 0, "fock": 0, "gaussian": 0, "unsupported": 0})
    d = 3
    gates = L.fermi_catalogue(d, rng=rng, size=8 if quick else 16, with_cphase=True)
    inputs = rng.sample(range(2 ** d), 3)
    mod = ("---- MODULE MCPF ----\nEXTENDS PqFermi\nGDef == << %s >>\nInDef == { %s }\n====\n"
           % (",\n ".join(L.fermi_record(g) for g in gates), ", ".join(map(str, inputs))))
    res = run_tlc("MCPF", "MCPF.cfg", generated={"MCPF.tla": mod, "MCPF.cfg": c17.CFG % (d, 2)}, timeout=3000)
    if res.violated or "Error:" in res.out:
        raise MachineryError("PqFermi failed in C09:\n" + "\n".join(l for l in res.out.splitlines() if not l.startswith('<<"FERMI"'))[-1500:])
    ctx.add_tlc(res)
    recs, seen = [], set()
    for r in res.records("FERMI"):
        k = tuple(r["hist"])
        if k not in seen and len(r["hist"]) > 1:
            seen.add(k)
            recs.append(r)
    if len(recs) > (50 if quick else 250):
        recs = rng.sample(recs, 50 if quick else 250)
    basis = np.asarray(FU.get_fock_space_basis(d, d + 1))
    masks = [sum(int(b[k]) << k for k in range(d)) for b in basis]
    for rec in recs:
        s0 = rec["hist"][0]
        idx = [i - 1 for i in rec["hist"][1:]]
        names = [gates[i]["name"] + str(gates[i]["modes"]) for i in idx]
        sig = "/".join(sorted({n.split("(")[0] for n in names}))
        psi = np.array([qv(rec["psi"][str(T)]) if isinstance(rec["psi"], dict) else qv(rec["psi"][T]) for T in range(2 ** d)])
        sigma = np.array([[qv(x) for x in row] for row in rec["sigma"]]).real
        occ = [(s0 >> k) & 1 for k in range(d)]
        replay = {"input": occ, "gates": names}
        ctx.case((s0, tuple(names)))
        counters["states"] += 1
        with warnings.catch_warnings():
            warnings.simplefilter("ignore")
            ins = [pq.NumberState(occ).on_modes(*range(d))] + [gates[i]["mk"](pq).on_modes(*gates[i]["modes"]) for i in idx]
            try:
                sf = pq.fermionic.PureFockSimulator(d=d, config=pq.Config(cutoff=d + 1), connector=conns["jax"]()).execute(pq.Program(instructions=ins)).state
                sv = np.asarray(sf.state_vector)
                exp = np.array([psi[m] for m in masks])
                counters["fock"] += 1
                if sv.shape != exp.shape or np.abs(sv - exp).max() > TOL:
                    ctx.report(f"C09:fermionic-fock:jax:state_vector:{sig}", f"fermionic PureFockSimulator with the jax connector differs from the exact state after {names} on {occ} "
                               f"(max deviation {np.abs(sv - exp).max() if sv.shape == exp.shape else 'shape'})", replay)
                else:
                    ctx.validated()
            except (NotImplementedError, pq.api.exceptions.PiquassoException) as e:
                counters["unsupported"] += 1
            except Exception as e:  # noqa
                ctx.report(f"C09:fermionic-fock:jax:raises:{type(e).__name__}:{sig}", f"fermionic PureFockSimulator with the jax connector raised {type(e).__name__}: {str(e)[:120]} for {names} on {occ} (NumPy runs)", replay)
            if all(gates[i]["gaussian"] for i in idx):
                try:
                    sg = pq.fermionic.GaussianSimulator(d=d, connector=conns["jax"]()).execute(pq.Program(instructions=ins)).state
                    cg = np.asarray(sg.covariance_matrix)
                    counters["gaussian"] += 1
                    if np.abs(cg - sigma).max() > TOL:
                        ctx.report(f"C09:fermionic-gaussian:jax:covariance:{sig}", f"fermionic GaussianSimulator with the jax connector: covariance differs from the exact one after {names} on {occ} "
                                   f"(max {np.abs(cg - sigma).max():.3g})", replay)
                    else:
                        ctx.validated()
                except (NotImplementedError, pq.api.exceptions.PiquassoException) as e:
                    counters["unsupported"] += 1
                except Exception as e:  # noqa
                    ctx.report(f"C09:fermionic-gaussian:jax:raises:{type(e).__name__}:{sig}", f"fermionic GaussianSimulator with the jax connector raised {type(e).__name__}: {str(e)[:120]} for {names} on {occ}", replay)


def run(ctx):
    import piquasso as pq
    quick = ctx.tier == "quick"
    rng = random.Random(ctx.seed + 9)
    conns = connectors(pq)
    ctx.notes["connectors"] = sorted(conns)
    if len(conns) < 3:
        raise MachineryError("TensorFlow / JAX connectors are not importable: " + ", ".join(sorted(conns)))
    ctx.assumptions += ["double precision (jax_enable_x64); tolerance 1e-8 against the exact state",
                        "Fock-space squeezing / displacement / Gaussian transforms have no exact lattice representation: compared across connectors at equal cutoff only"]
    part_purefock(ctx, pq, conns, quick, rng)
    ctx.tick("purefock")
    part_active_cross(ctx, pq, conns, quick, rng)
    ctx.tick("active_cross")
    part_gaussian(ctx, pq, conns, quick, rng)
    ctx.tick("gaussian")
    part_passive(ctx, pq, conns, quick, rng)
    ctx.tick("passive")
    part_fermionic(ctx, pq, conns, quick, rng)
    ctx.tick("fermionic")
