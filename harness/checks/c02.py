"""C02 — measurement samples follow the Born rule of the measured state.

No statistical test anywhere.  Three exact bindings:

1. PqSampler.tla (on top of PqOptics): the chain-rule sampler of the passive simulator as a probabilistic state machine.
   TLC proves on every instance of the bound that the law of the accepted sample equals the Born distribution of the
   reference state (conditioned on post-selection, uniform loss by dilation) and exports that law.
   The IMPLEMENTATION's law is computed exactly as well: the real PassiveSimulator is executed once per path of its RNG
   decision tree with a scripted generator (harness/sampler_paths.py); the product of the probabilities the code hands
   to its generator, summed per outcome, is the law of the code under an ideal generator.  The two laws must agree.
2. Reference state from PqOptics, Born marginalisation: the same exact-law enumeration for what PqSampler does not model
   (measurement of a subset of modes: direct marginal sampler or projection; non-uniform loss: doubled interferometer),
   and the probability maps handed to the categorical primitive by the Fock simulators.
3. PqGaussian: the (mean, covariance) handed to multivariate_normal by the general-dyne family must be the exact
   (<R>_M, (sigma_M + sigma_m) / 2); one sample entry per measured quantity.
"""
import itertools
import math
import random
import re
import warnings

import numpy as np

from ..common import run_tlc, MachineryError
from .. import lattice as L
from .. import sampler_paths as SP
from . import c05

CFG = """SPECIFICATION SSpec
CONSTANTS
  D = %d
  Inputs <- InDef
  Gates <- GDef
  Losses <- LDef
  MeasSets <- MDef
  Perm <- PDef
  CommuteDepth = 0
  MaxDepth = %d
  Measure = FALSE
  Export = FALSE
  PostSels <- PSDef
  LossKinds <- LKDef
  FixedReject = %s
  ExportLaw = %s
INVARIANT Check
"""


def sampler_module(name, d, gates, inputs, losskinds, postsels):
    gdef = "<< " + ",\n  ".join(L.gate_record(g) for g in gates) + " >>"
    ldef = "<< " + ",\n  ".join(L.gate_record(g) for g in losskinds) + " >>"
    idef = "{ " + ", ".join("<<" + ", ".join(map(str, v)) + ">>" for v in inputs) + " }"
    pdef = "{ " + ", ".join("[modes |-> <<%s>>, photons |-> <<%s>>]" % (", ".join(str(m + 1) for m in ms), ", ".join(map(str, ph)))
                            for ms, ph in postsels) + " }"
    return (f"---- MODULE {name} ----\nEXTENDS PqSampler\nGDef == {gdef}\nLKDef == {ldef}\nInDef == {idef}\nPSDef == {pdef}\n"
            f"LDef == <<>>\nMDef == {{}}\nPDef == <<>>\n====\n")


def f2float(x):
    return (x["a"] + x["b"] * L.SQ2) / x["d"]


def sampler_laws(ctx, d, gates, inputs, losskinds, postsels, depth, fixed=True, export=True, simulate=None, seed=0):
    res = run_tlc("MCS", "MCS.cfg", generated={"MCS.tla": sampler_module("MCS", d, gates, inputs, losskinds, postsels),
                                               "MCS.cfg": CFG % (d, depth, "TRUE" if fixed else "FALSE", "TRUE" if export else "FALSE")},
                  timeout=3000, simulate=simulate, depth=(depth + 8) if simulate else None, seed=seed if simulate else None)
    return res


def build_program(pq, d, gates, losskinds, rec_hist, ps, measured=None):
    """instructions of the real program behind a LAW record"""
    inp = tuple(rec_hist[0]["input"])
    ins = [pq.NumberState(inp).on_modes(*range(d))]
    name = []
    for st in rec_hist[1:]:
        if "gate" in st:
            g = gates[st["gate"] - 1]
            ins.append(g["mk"](pq).on_modes(*g["modes"]))
            name.append(g["name"] + str(g["modes"]))
        elif "lossall" in st:
            g = losskinds[st["lossall"] - 1]
            for m in range(d):
                ins.append(g["mk"](pq).on_modes(m))
            name.append("Uniform" + g["name"])
    psm = [m - 1 for m in ps["modes"]]
    if psm:
        ins.append(pq.PostSelectPhotons(photon_counts=tuple(ps["photons"])).on_modes(*psm))
        name.append(f"PostSelect{tuple(psm)}={tuple(ps['photons'])}")
    if measured is None:       # surviving modes keep their original labels
        measured = tuple(m for m in range(d) if m not in psm)
    ins.append(pq.ParticleNumberMeasurement().on_modes(*measured))
    return inp, ins, name


def _impl_law(pq, simclass, ins, d, trials=1, shots=1, cutoff=None, max_paths=60000):
    """exact law of result.samples of the real simulator: {outcome: probability}, aborted mass, number of paths, logs"""
    from piquasso.api.exceptions import InvalidSimulation

    def run(rng):
        kw = dict(seed_sequence=0, max_sample_generation_trials=trials)
        if cutoff is not None:
            kw["cutoff"] = cutoff
        cfg = pq.Config(**kw)
        cfg.rng = rng
        orig = np.random.default_rng
        np.random.default_rng = lambda seed=None: rng
        try:
            sim = simclass(d=d, config=cfg)
            try:
                r = sim.execute(pq.Program(instructions=ins), shots=shots)
            except InvalidSimulation:
                return ("abort",)
            except SP.Unsupported:
                raise
            except Exception as e:  # noqa  -- the sampler itself fails on a path of positive probability
                return ("raises", type(e).__name__, str(e)[:80])
            return tuple(tuple(int(x) for x in s) for s in r.samples)
        finally:
            np.random.default_rng = orig
    with warnings.catch_warnings():
        warnings.simplefilter("ignore")
        res = SP.enumerate_paths(run, max_paths=max_paths)
    failing = [(o, w) for o, w, _ in res if o and o[0] == "raises"]
    if failing:
        raise SamplerRaises(failing[0][0][1], failing[0][0][2], sum(w for _, w in failing))
    acc, tot, rej = SP.law(res, accept=lambda o: o != ("abort",))
    bad_pmf = [info for _, _, log in res for kind, probs, c, info in log if kind == "choice" and info and abs(info["p_sum"] - 1.0) > 1e-9]
    return acc, tot, rej, len(res), bad_pmf


def impl_law(pq, simclass, ins, d, **kw):
    """_impl_law, with a failing sampler turned into a reported violation by the caller through LAST_RAISE"""
    return _impl_law(pq, simclass, ins, d, **kw)


class SamplerRaises(Exception):
    def __init__(self, cls, msg, mass):
        super().__init__(f"{cls}: {msg} (on paths of total probability {mass:.6f})")
        self.cls, self.mass = cls, mass


def compare_laws(ctx, key, what, got, acc_mass, expected, replay, tol=1e-9):
    """got: {outcome tuple: weight} (unnormalised accepted mass), expected: {outcome: probability} (normalised)"""
    if acc_mass <= 1e-14:
        if sum(expected.values()) > 1e-12:
            return ctx.report(key + ":never-accepts", what + ": the sampler never accepts although the post-selected event has positive probability", replay)
        return False
    outs = set(got) | set(expected)
    worst, wo = 0.0, None
    for o in outs:
        dlt = abs(got.get(o, 0.0) / acc_mass - expected.get(o, 0.0))
        if dlt > worst:
            worst, wo = dlt, o
    if worst > tol:
        return ctx.report(key, f"{what}: P_impl({wo}) = {got.get(wo, 0.0) / acc_mass:.9f}, exact Born probability {expected.get(wo, 0.0):.9f}", replay)
    return False


# ------------------------------------------------------------------------------------------------------------
def part_chain_sampler(ctx, pq, quick, rng):
    plans = [(2, 2, 3, 5), (3, 1, 2, 5)] if quick else [(2, 3, 3, 8), (3, 2, 3, 6)]
    postsels_all = {2: [((), ()), ((0,), (0,)), ((0,), (1,)), ((1,), (1,)), ((1,), (2,))],
                    3: [((), ()), ((0,), (1,)), ((2,), (0,)), ((0, 2), (1, 1)), ((1,), (2,)), ((0, 1), (0, 1))]}
    counters = ctx.notes.setdefault("chain_sampler", {"laws": 0, "paths": 0, "lossy": 0, "postselected": 0, "two_trial": 0})
    for (d, depth, nmax, ng) in plans:
        pool = L.passive_catalogue(d, with_kerr=False)
        gates = rng.sample(pool, ng)
        inputs = L.inputs(d, nmax)
        if quick:
            inputs = rng.sample(inputs, min(len(inputs), 8))
        lk = [L.loss(0, "4/5"), L.loss(0, "1/sqrt2")]
        postsels = postsels_all[d]
        res = sampler_laws(ctx, d, gates, inputs, lk, postsels, depth)
        # TLC's integers are 32-bit: an instance whose exact path weights do not fit is reported by TLC as an overflow ERROR (never a silent wrap);
        # it is then re-run with fewer photons, and the reduction is recorded
        while "Overflow when computing" in res.out and max(sum(v) for v in inputs) > 1:
            top = max(sum(v) for v in inputs)
            inputs = [v for v in inputs if sum(v) < top]
            ctx.notes.setdefault("sampler_overflow_reductions", []).append({"d": d, "depth": depth, "photons_reduced_below": top})
            res = sampler_laws(ctx, d, gates, inputs, lk, postsels, depth)
        if res.violated:
            ctx.report("spec:PqSampler:" + ",".join(map(str, res.violated)), "the sampler algorithm of the specification does not have the Born law (see TLC trace)",
                       "\n".join(l for l in res.out.splitlines() if not l.startswith('<<"LAW"'))[-3000:])
            continue
        if "Error:" in res.out:
            raise MachineryError("PqSampler run failed:\n" + "\n".join(l for l in res.out.splitlines() if not l.startswith('<<"LAW"'))[-2500:])
        ctx.add_tlc(res)
        recs = res.records("LAW")
        ctx.notes.setdefault("sampler_explorations", []).append({"d": d, "depth": depth, "nmax": nmax, "gates": [g["name"] + str(g["modes"]) for g in gates],
                                                                 "postselections": postsels, "laws_exported": len(recs), "states": res.distinct})
        seen = set()
        todo = []
        for r in recs:
            k = repr((r["hist"], r["ps"]))
            if k not in seen:
                seen.add(k)
                todo.append(r)
        if len(todo) > (260 if quick else 1500):
            todo = rng.sample(todo, 260 if quick else 1500)
        for r in todo:
            law = {}
            if isinstance(r["law"], list):
                if r["law"]:
                    raise MachineryError("unexpected LAW export: " + repr(r["law"])[:200])
                r["law"] = {}          # the post-selected event has probability zero: nothing is ever accepted
            for k, v in r["law"].items():
                law[tuple(int(x) for x in re.findall(r"-?\d+", k))] = f2float(v)
            inp, ins, name = build_program(pq, d, gates, lk, r["hist"], r["ps"])
            lossy = any("lossall" in st for st in r["hist"][1:])
            post = len(r["ps"]["modes"]) > 0
            sig = "/".join((["loss"] if lossy else []) + (["postselect"] if post else [])) or "plain"
            key = f"C02:law:Passive:chain:{sig}"
            replay = {"input": inp, "steps": name, "spec_law": {str(k): v for k, v in law.items()}}
            ctx.case((inp, tuple(name)), nontrivial=len(law) > 1)
            try:
                acc, tot, rej, npaths, bad = impl_law(pq, pq.PassiveSimulator, ins, d, trials=1)
            except SamplerRaises as e_:
                ctx.report((key if 'key' in locals() else f'{pid}:law:Passive') + ':sampler-raises:' + e_.cls, f"the sampler raises on a path of positive probability: {e_}", replay)
                continue
            except SP.Unsupported as e:
                ctx.notes.setdefault("unsupported", []).append(str(e))
                continue
            counters["laws"] += 1
            counters["paths"] += npaths
            counters["lossy"] += lossy
            counters["postselected"] += post
            if abs(tot - 1.0) > 1e-9:
                ctx.report(key + ":mass", f"decision probabilities of the sampler do not add up to 1 ({tot:.12f}) for {name} on {inp}", replay)
                continue
            if bad:
                ctx.report(key + ":pmf-not-normalised", f"a pmf handed to rng.choice sums to {bad[0]['p_sum']:.12f} for {name} on {inp}", replay)
                continue
            got = {o[0]: w for o, w in acc.items()}
            spec_acc = f2float(r["acctot"])
            if abs((tot - rej) - spec_acc) > 1e-9:
                ctx.report(key + ":acceptance", f"one trial of the sampler is accepted with probability {tot - rej:.9f}, specification {spec_acc:.9f} for {name} on {inp}", replay)
                continue
            if compare_laws(ctx, key, f"PassiveSimulator sampling after {name} on {inp}", got, tot - rej, law, replay):
                continue
            ctx.validated()
            if len(law) > 1:
                ctx.sample({"input": inp, "program": name, "TLC_law_of_accepted_sample": {str(k): round(v, 9) for k, v in law.items()}, "acceptance_probability": round(spec_acc, 9),
                            "implementation_law_from_%d_RNG_paths" % npaths: {str(k): round(v / (tot - rej), 9) for k, v in got.items()}}, limit=3)
            # retries are independent of the aborted trial: with two trials allowed the conditional law is unchanged
            if post and rej > 1e-12 and counters["two_trial"] < (40 if quick else 400) and npaths <= 400:
                counters["two_trial"] += 1
                try:
                    acc2, tot2, rej2, np2, _ = impl_law(pq, pq.PassiveSimulator, ins, d, trials=2)
                except SamplerRaises as e_:
                    ctx.report(key + ":sampler-raises:" + e_.cls, f"the sampler raises in a second trial: {e_}", replay)
                    continue
                counters["paths"] += np2
                got2 = {o[0]: w for o, w in acc2.items()}
                if abs(rej2 - rej * rej) > 1e-9:
                    ctx.report(key + ":retry-mass", f"two trials abort with probability {rej2:.9f}, expected {rej * rej:.9f} (trials not identically distributed) for {name} on {inp}", replay)
                else:
                    compare_laws(ctx, key + ":retry", f"PassiveSimulator sampling (second trial after an aborted one) after {name} on {inp}", got2, tot2 - rej2, law, replay)


def part_spec_witness(ctx, quick):
    """non-vacuity: the machine with the pre-fix loop (`continue` before the pruning test) must violate LawIsBorn"""
    gates = [L.beamsplitter(0, 1, "pi/4", 0)]
    res = sampler_laws(ctx, 2, gates, [(1, 0), (1, 1)], [L.loss(0, "4/5")], [((1,), (1,))], 2, fixed=False, export=False)
    ok = bool(res.violated)
    ctx.notes["prefix_variant_rejected_by_TLC"] = ok
    if not ok:
        raise MachineryError("PqSampler with FixedReject = FALSE was expected to violate LawIsBorn (vacuity guard)")


# ------------------------------------------------------------------------------------------------------------
def _binomial_detector(eta, nmax=4):
    return np.array([[math.comb(m, n) * eta ** n * (1 - eta) ** (m - n) if n <= m else 0.0 for m in range(nmax + 1)] for n in range(nmax + 1)])


DETECTORS = {"binomial(3/4)": _binomial_detector(0.75),
             "saturating": np.array([[1.0, 0.0, 0.0, 0.0, 0.0], [0.0, 1.0, 0.25, 0.125, 0.0625], [0.0, 0.0, 0.75, 0.875, 0.9375]])}


def detector_law(law, P):
    """detector efficiency matrix P[detected, actual] applied independently per mode to a law over actual outcomes"""
    out = {}
    for actual, p in law.items():
        per_mode = [[(n, P[n, m]) for n in range(P.shape[0]) if P[n, m] > 0] for m in actual]
        for combo in itertools.product(*per_mode):
            o = tuple(c[0] for c in combo)
            w = p
            for c in combo:
                w *= c[1]
            out[o] = out.get(o, 0.0) + w
    return out


def born_marginal(probs, idx):
    out = {}
    for v, p in probs.items():
        k = tuple(v[i] for i in idx)
        out[k] = out.get(k, 0.0) + p
    return out


def part_reference_state(ctx, pq, quick, rng):
    """PqOptics reference states: subset measurements, non-uniform loss, categorical samplers of the Fock simulators"""
    from piquasso.api.exceptions import NotImplementedCalculation
    plans = [(3, 4, 3, 2)] if quick else [(3, 6, 4, 3), (2, 6, 4, 4)]
    counters = ctx.notes.setdefault("reference_state", {"passive_laws": 0, "paths": 0, "nonuniform_loss": 0, "subset": 0, "fock_maps": 0})
    for (d, ng, nin, depth) in plans:
        gates = L.passive_catalogue(d, rng=rng, size=ng, with_kerr=False)
        losses = [L.loss(i, t) for i in range(d) for t in rng.sample(["4/5", "3/5", "1/sqrt2"], 1)]
        inputs = L.inputs(d, 3, rng=rng, size=nin)
        recs = c05.explore(ctx, d, gates, losses, [], inputs, depth)
        if len(recs) > (120 if quick else 400):
            recs = rng.sample(recs, 120 if quick else 400)
        for rec in recs:
            inp, steps, probs, amps, nsys, nanc = c05.decode(rec)
            if any("kind" in st for st in steps) or not steps:
                continue
            n = sum(inp)
            ins0 = [pq.NumberState(inp).on_modes(*range(d))]
            name = []
            for st in steps:
                g = gates[st["gate"] - 1] if "gate" in st else losses[st["loss"] - 1]
                ins0.append(g["mk"](pq).on_modes(*g["modes"]))
                name.append(g["name"] + str(g["modes"]))
            lossy = nanc > 0
            # every ordered tuple of distinct modes, including all modes listed in a non-ascending order
            subsets = [tuple(range(d))] + [s for k in range(1, d + 1) for s in itertools.permutations(range(d), k) if s != tuple(range(d))]
            full = [s for s in subsets[1:] if len(s) == d]
            for sub in (subsets if not quick else [subsets[0], rng.choice(full)] + rng.sample(subsets[1:], 2)):
                exp = born_marginal(probs, sub)
                ins = ins0 + [pq.ParticleNumberMeasurement().on_modes(*sub)]
                sig = ("nonuniform-loss" if lossy else "lossless") + ("/subset" if len(sub) < d else "")
                key = f"C02:law:Passive:{sig}"
                replay = {"input": inp, "steps": name, "measured": sub}
                ctx.case((inp, tuple(name), sub), nontrivial=len(exp) > 1)
                try:
                    acc, tot, rej, npaths, bad = impl_law(pq, pq.PassiveSimulator, ins, d, trials=1)
                except SamplerRaises as e_:
                    ctx.report((key if 'key' in locals() else f'{pid}:law:Passive') + ':sampler-raises:' + e_.cls, f"the sampler raises on a path of positive probability: {e_}", replay)
                    continue
                except SP.Unsupported as e:
                    ctx.notes.setdefault("unsupported", []).append(str(e))
                    continue
                except NotImplementedCalculation:
                    continue
                counters["passive_laws"] += 1
                counters["paths"] += npaths
                counters["nonuniform_loss"] += lossy
                counters["subset"] += len(sub) < d
                if abs(tot - 1.0) > 1e-9 or bad:
                    ctx.report(key + ":mass", f"decision probabilities do not add up to 1 ({tot:.12f}) measuring {sub} after {name} on {inp}", replay)
                    continue
                got = {o[0]: w for o, w in acc.items()}
                bad_len = [o for o in got if len(o) != len(sub)]
                if bad_len:
                    ctx.report(key + ":shape", f"sample {bad_len[0]} does not have one entry per measured mode {sub}", replay)
                    continue
                if not compare_laws(ctx, key, f"PassiveSimulator sampling of modes {sub} after {name} on {inp}", got, tot - rej, exp, replay, tol=1e-8):
                    ctx.validated()
            # imperfect detectors: binomial efficiency 3/4 and a saturating detector; law = detector matrix applied mode by mode to the Born law
            sub = rng.choice(subsets)
            for dname, P in DETECTORS.items():
                exp = detector_law(born_marginal(probs, sub), P)
                ins = ins0 + [pq.ImperfectParticleNumberMeasurement(detector_efficiency_matrix=P).on_modes(*sub)]
                key = f"C02:law:Passive:imperfect:{dname}:" + ("nonuniform-loss" if lossy else "lossless")
                replay = {"input": inp, "steps": name, "measured": sub, "detector": dname}
                ctx.case((inp, tuple(name), sub, dname), nontrivial=len(exp) > 1)
                try:
                    acc, tot, rej, npaths, bad = impl_law(pq, pq.PassiveSimulator, ins, d, trials=1)
                except SamplerRaises as e_:
                    ctx.report((key if 'key' in locals() else f'{pid}:law:Passive') + ':sampler-raises:' + e_.cls, f"the sampler raises on a path of positive probability: {e_}", replay)
                    continue
                except (SP.Unsupported, NotImplementedCalculation) as e:
                    ctx.notes.setdefault("unsupported", []).append(str(e)[:80])
                    continue
                counters["imperfect"] = counters.get("imperfect", 0) + 1
                counters["paths"] += npaths
                if abs(tot - 1.0) > 1e-9 or bad:
                    ctx.report(key + ":mass", f"decision probabilities do not add up to 1 ({tot:.12f}) with the {dname} detector on {sub} after {name} on {inp}", replay)
                    continue
                got = {o[0]: w for o, w in acc.items()}
                if not compare_laws(ctx, key, f"PassiveSimulator sampling with the {dname} detector on modes {sub} after {name} on {inp}", got, tot - rej, exp, replay, tol=1e-8):
                    ctx.validated()
                try:
                    with warnings.catch_warnings():
                        warnings.simplefilter("ignore")
                        rn = pq.PassiveSimulator(d=d).execute(pq.Program(instructions=ins), shots=None)
                    gotn = {}
                    for br in rn.branches:
                        o = tuple(int(x) for x in br.outcome)
                        gotn[o] = gotn.get(o, 0.0) + float(br.frequency)
                    # shots=None takes its weights from the probability table, which is wrong for lossy states with a complex transmission matrix
                    # (known finding of C05): those cases get their own key
                    cplx_t = any(any(x[2] != 0 or x[3] != 0 for row in (gates[st["gate"] - 1] if "gate" in st else losses[st["loss"] - 1])["M"] for x in row) for st in steps)
                    wkey = (f"C02:weights:Passive:lossy:{'complex' if cplx_t else 'real'}-transmission:shots-none:{dname}" if lossy else key + ":shots-none")
                    compare_laws(ctx, wkey, f"PassiveSimulator shots=None weights with the {dname} detector on modes {sub} after {name} on {inp}", gotn, 1.0, exp, replay, tol=1e-8)
                except NotImplementedCalculation:
                    pass
                except Exception as e:  # noqa
                    ctx.report(key + f":shots-none:raises:{type(e).__name__}", f"shots=None with the {dname} detector raised {type(e).__name__}: {str(e)[:100]} after {name} on {inp}", replay)
            # categorical primitive of the Fock simulators: the probability map handed to it (lossless circuits only: pure states)
            if not lossy:
                for simname in ("PureFockSimulator", "FockSimulator"):
                    sub = rng.choice(subsets)
                    exp = born_marginal(probs, sub)
                    got = capture_probability_map(pq, simname, ins0, d, sub, n + 1, inp)
                    counters["fock_maps"] += 1
                    key = f"C02:probability-map:{simname}"
                    if got is None:
                        ctx.report(key + ":not-called", f"{simname} did not sample through sample_from_probability_map", {"input": inp, "steps": name})
                        continue
                    compare_laws(ctx, key, f"{simname} weights handed to the categorical sampler for modes {sub} after {name} on {inp}", got, sum(got.values()), exp,
                                 {"input": inp, "steps": name, "measured": sub}, tol=1e-8)


def capture_probability_map(pq, simname, ins0, d, sub, cutoff, inp):
    import piquasso._utils as U
    import sys
    captured = []
    orig = U.sample_from_probability_map

    def spy(probability_map, shots, rng=None):
        captured.append(dict(probability_map))
        return orig(probability_map, shots, rng=rng)
    patched = []
    for modname, mod in list(sys.modules.items()):
        if modname.startswith("piquasso") and getattr(mod, "sample_from_probability_map", None) is orig:
            setattr(mod, "sample_from_probability_map", spy)
            patched.append(mod)
    try:
        with warnings.catch_warnings():
            warnings.simplefilter("ignore")
            ins = list(ins0)
            if simname == "FockSimulator":
                ins[0] = pq.DensityMatrix(ket=inp, bra=inp).on_modes(*range(d))
            ins = ins + [pq.ParticleNumberMeasurement().on_modes(*sub)]
            sim = getattr(pq, simname)(d=d, config=pq.Config(cutoff=cutoff, seed_sequence=3))
            r = sim.execute(pq.Program(instructions=ins), shots=3)
            if any(len(s) != len(sub) for s in r.samples):
                return {("bad-shape",): 1.0}
    finally:
        for mod in patched:
            setattr(mod, "sample_from_probability_map", orig)
    if not captured:
        return None
    return {tuple(int(x) for x in k): float(np.real(v)) for k, v in captured[0].items()}


def part_distinguishable_sampler(ctx, pq, quick, rng):
    """PqDistinguish reference law (internal states as extra modes, by definition) vs the exact law of the samplers for partially
    distinguishable photons: uniform overlap (particle separation + chain rule), with post-selection (conditioned distinguishable
    output), with loss, and the general Gram-matrix sampler."""
    from piquasso.api.exceptions import NotImplementedCalculation
    from .. import distinguish_replay as DR
    counters = ctx.notes.setdefault("distinguishable_sampler", {"laws": 0, "paths": 0, "uniform": 0, "gram": 0, "lossy": 0, "postselected": 0, "not_implemented": 0, "skipped_known_table": 0})
    for (d, nc, photons, ng, depth, with_loss) in c05.dist_plans(quick, rng):
        gates = L.passive_catalogue(d, rng=rng, size=ng, with_kerr=False)
        losses = [L.loss(i, t) for i in range(d) for t in rng.sample(["4/5", "1/sqrt2"], 1)] if with_loss else []
        recs = DR.explore(ctx, d, nc, gates, photons, depth, losses)
        if len(recs) > (70 if quick else 300):
            recs = rng.sample(recs, 70 if quick else 300)
        for rec in recs:
            ph, law = rec["photons"], rec["law"]
            ins, name, lossy = c05.dist_program(pq, d, ph, gates, losses, rec["steps"])
            variants = [None]
            cands = sorted({(m, s[m]) for s, p in law.items() if p > 1e-9 for m in range(d)})
            if cands:
                variants.append(rng.choice(cands))
            for post in variants:
                ins2 = list(ins)
                if post is None:
                    exp, rest = dict(law), list(range(d))
                else:
                    m, k = post
                    ins2.append(pq.PostSelectPhotons(photon_counts=(k,)).on_modes(m))
                    rest = [i for i in range(d) if i != m]
                    exp = {tuple(s[i] for i in rest): p for s, p in law.items() if s[m] == k}
                tot_exp = sum(exp.values())
                exp = {o: p / tot_exp for o, p in exp.items()}
                ins2.append(pq.ParticleNumberMeasurement().on_modes(*rest))
                cplx = any(any(x[2] != 0 or x[3] != 0 for row in gates[st["gate"] - 1]["M"] for x in row) for st in rec["steps"] if "gate" in st)
                tag = (f"lossy:{'complex' if cplx else 'real'}-transmission" if lossy else "lossless") + f":{ph['kind']}:{'post' if post else 'nopost'}"
                key = f"C02:law:Passive:distinguishable:{tag}"
                replay = {"occupation": ph["occ"], "overlap": np.asarray(ph["overlap"]).tolist() if ph["kind"] == "gram" else ph["overlap"], "steps": name, "postselect": post}
                ctx.case((ph["occ"], ph["kind"], repr(replay["overlap"]), tuple(name), post))
                try:
                    acc, tot, rej, npaths, bad = impl_law(pq, pq.PassiveSimulator, ins2, d, trials=1, max_paths=30000)
                except SamplerRaises as e_:
                    ctx.report((key if 'key' in locals() else f'{pid}:law:Passive') + ':sampler-raises:' + e_.cls, f"the sampler raises on a path of positive probability: {e_}", replay)
                    continue
                except SP.Unsupported as e:
                    ctx.notes.setdefault("unsupported", []).append(str(e))
                    continue
                except NotImplementedCalculation:
                    counters["not_implemented"] += 1
                    continue
                counters["laws"] += 1
                counters["paths"] += npaths
                counters[ph["kind"]] += 1
                counters["lossy"] += lossy
                counters["postselected"] += post is not None
                what = f"PassiveSimulator sampling of partially distinguishable photons ({ph['kind']} overlap) after {name} on {ph['occ']}" + (f", post-selected on mode {post[0]} = {post[1]}" if post else "")
                if abs(tot - 1.0) > 1e-9 or bad:
                    ctx.report(key + ":mass", f"{what}: decision probabilities do not add up to 1 ({tot:.12f})", replay)
                    continue
                got = {o[0]: w for o, w in acc.items()}
                if any(len(o) != len(rest) for o in got):
                    ctx.report(key + ":shape", f"{what}: a sample does not have one entry per measured mode", replay)
                    continue
                if not compare_laws(ctx, key, what, got, tot - rej, exp, replay, tol=1e-8):
                    ctx.validated()


# ------------------------------------------------------------------------------------------------------------
class NormalRecorder:
    """stands in for config.rng of the Gaussian simulator: records what multivariate_normal is asked for"""

    def __init__(self):
        self.calls = []

    def multivariate_normal(self, mean, cov, size=None, **kw):
        mean, cov = np.array(mean, dtype=float), np.array(cov, dtype=float)
        self.calls.append((mean, cov, size))
        k = 1 if size is None else int(size)
        return np.array([mean + 0.25 * np.sqrt(np.abs(np.diag(cov))) * ((-1) ** i) for i in range(k)])

    def __deepcopy__(self, memo):
        return self


def part_generaldyne(ctx, pq, quick, rng):
    from .. import gaussian_replay as GR
    d = 2
    counters = ctx.notes.setdefault("generaldyne", {"states": 0, "calls": 0})
    gates = L.gaussian_catalogue(d, rng=rng, size=5 if quick else 9)
    depth = 2 if quick else 3
    recs = GR.explore(ctx, d, gates, depth)
    if len(recs) > (40 if quick else 150):
        recs = rng.sample(recs, 40 if quick else 150)
    dets = {"Heterodyne": (lambda: pq.HeterodyneMeasurement(), np.identity(2), 2),
            "Generaldyne": (lambda: pq.GeneraldyneMeasurement(np.array([[2.0, 0.0], [0.0, 0.5]])), np.array([[2.0, 0.0], [0.0, 0.5]]), 2),
            "Homodyne": (lambda: pq.HomodyneMeasurement(), np.array([[1e-8, 0.0], [0.0, 1e8]]), 1),
            "Homodyne(pi/2)": (lambda: pq.HomodyneMeasurement(phi=np.pi / 2), np.array([[1e-8, 0.0], [0.0, 1e8]]), 1),
            "Homodyne(pi/3)": (lambda: pq.HomodyneMeasurement(phi=np.pi / 3), np.array([[1e-8, 0.0], [0.0, 1e8]]), 1)}
    angle = {"Homodyne(pi/2)": np.pi / 2, "Homodyne(pi/3)": np.pi / 3}
    for rec in recs:
        mu, Gam, reps, nbar = GR.decode(rec, d)
        idx = [i - 1 for i in rec["hist"]]
        name = [gates[i]["name"] + str(gates[i]["modes"]) for i in idx]
        for (hn, hd, sn, sd, hbar) in L.HBARS:
            mean_xxpp, cov_xxpp = reps[hbar]
            perm = GR.xxpp_to_xpxp_perm(d)
            mean = np.asarray(mean_xxpp)[perm]
            cov = np.asarray(cov_xxpp)[np.ix_(perm, perm)]
            for modes in ((0,), (1,), (0, 1), (1, 0)):
                for dn, (mk, detcov, per_mode) in dets.items():
                    rec_rng = NormalRecorder()
                    cfg = pq.Config(hbar=hbar, seed_sequence=1)
                    cfg.rng = rec_rng
                    with warnings.catch_warnings():
                        warnings.simplefilter("ignore")
                        ins = [pq.Vacuum()] + [gates[i]["mk"](pq).on_modes(*gates[i]["modes"]) for i in idx] + [mk().on_modes(*modes)]
                        try:
                            r = pq.GaussianSimulator(d=d, config=cfg).execute(pq.Program(instructions=ins), shots=2)
                        except Exception as e:  # noqa
                            ctx.report(f"C02:generaldyne:raises:{dn}:{type(e).__name__}", f"{dn} on {modes} after {name} raised {type(e).__name__}: {str(e)[:120]}", {"gates": name, "hbar": hbar})
                            continue
                    counters["calls"] += 1
                    ctx.case((tuple(idx), hbar, modes, dn))
                    replay = {"gates": name, "hbar": hbar, "modes": modes, "measurement": dn}
                    if len(rec_rng.calls) != 1:
                        ctx.report(f"C02:generaldyne:{dn}:calls", f"{dn}: multivariate_normal called {len(rec_rng.calls)} times", replay)
                        continue
                    m, c, size = rec_rng.calls[0]
                    ind = [k for mm in modes for k in (2 * mm, 2 * mm + 1)]
                    # homodyne at angle phi measures x_phi = cos(phi) x + sin(phi) p (documented): rotate the exact moments
                    ph = angle.get(dn, 0.0)
                    rot = np.kron(np.identity(len(modes)), np.array([[np.cos(ph), np.sin(ph)], [-np.sin(ph), np.cos(ph)]]))
                    exp_mean = rot @ mean[ind]
                    sig_m = hbar * np.kron(np.identity(len(modes)), detcov)
                    exp_cov = (rot @ cov[np.ix_(ind, ind)] @ rot.T + sig_m) / 2.0
                    if size != 2:
                        ctx.report(f"C02:generaldyne:{dn}:size", f"{dn}: {size} samples requested for shots=2", replay)
                    scale = np.maximum(1.0, np.abs(exp_cov).max())
                    if np.abs(m - exp_mean).max() > 1e-8:
                        ctx.report(f"C02:generaldyne:{dn}:mean", f"{dn} on {modes} after {name} (hbar={hbar}): sampling mean {np.round(m, 6)}, exact <R> {np.round(exp_mean, 6)}", replay)
                    elif not dn.startswith("Homodyne") and np.abs(c - exp_cov).max() > 1e-8 * scale:
                        ctx.report(f"C02:generaldyne:{dn}:covariance", f"{dn} on {modes} after {name} (hbar={hbar}): sampling covariance diag {np.round(np.diag(c), 6)}, "
                                   f"exact (sigma+sigma_m)/2 diag {np.round(np.diag(exp_cov), 6)}", replay)
                    elif dn.startswith("Homodyne") and np.abs(np.diag(c)[0::2] - np.diag(exp_cov)[0::2]).max() > 1e-6 * scale:
                        ctx.report(f"C02:generaldyne:{dn}:covariance", f"{dn} on {modes} after {name} (hbar={hbar}): variance of x {np.round(np.diag(c)[0::2], 6)}, "
                                   f"exact sigma_xx/2 {np.round(np.diag(exp_cov)[0::2], 6)}", replay)
                    else:
                        ctx.validated()
                    lens = {len(s) for s in r.samples}
                    if lens != {per_mode * len(modes)}:
                        ctx.report(f"C02:shape:Gaussian:{dn.split('(')[0]}", f"{dn} on {len(modes)} mode(s): samples have {sorted(lens)} entries, {per_mode * len(modes)} measured quantities", replay)
        counters["states"] += 1


def part_postselect_order(ctx, pq, quick, rng, pid="C02"):
    """post-selection of two modes listed in ascending and in descending order, followed by the measurement of a subset of the surviving
    modes (addressed by their original labels): both spellings must have the exact conditional marginal law of the PqOptics state"""
    from piquasso.api.exceptions import NotImplementedCalculation
    d = 4
    counters = ctx.notes.setdefault("postselect_order", {"laws": 0, "paths": 0})
    gates = L.passive_catalogue(d, rng=rng, size=4, with_kerr=False)
    inputs = [v for v in L.inputs(d, 3) if sum(v) >= 2]
    recs = c05.explore(ctx, d, gates, [], [], rng.sample(inputs, 2 if quick else 5), 1 if quick else 2)
    recs = [r for r in recs if len(r["hist"]) > 1]
    if len(recs) > (10 if quick else 40):
        recs = rng.sample(recs, 10 if quick else 40)
    for rec in recs:
        inp, steps, probs, amps, nsys, nanc = c05.decode(rec)
        ins0 = [pq.NumberState(inp).on_modes(*range(d))]
        name = []
        for st in steps:
            g = gates[st["gate"] - 1]
            ins0.append(g["mk"](pq).on_modes(*g["modes"]))
            name.append(g["name"] + str(g["modes"]))
        for trial in range(2):
            a, b = sorted(rng.sample(range(d), 2))
            outs = sorted({(v[a], v[b]) for v, p in probs.items() if p > 1e-9})
            if not outs:
                continue
            oa, ob = rng.choice(outs)
            rest = [m for m in range(d) if m not in (a, b)]
            meas = (rest[-1],) if trial == 0 else tuple(reversed(rest))
            exp = {}
            for v, p in probs.items():
                if v[a] == oa and v[b] == ob:
                    k = tuple(v[m] for m in meas)
                    exp[k] = exp.get(k, 0.0) + p
            tot = sum(exp.values())
            exp = {k: p / tot for k, p in exp.items()}
            for spelling, (ms, cs) in (("ascending", ((a, b), (oa, ob))), ("descending", ((b, a), (ob, oa)))):
                ins = ins0 + [pq.PostSelectPhotons(photon_counts=cs).on_modes(*ms), pq.ParticleNumberMeasurement().on_modes(*meas)]
                replay = {"input": inp, "steps": name, "postselect_modes": ms, "photon_counts": cs, "measured": meas}
                ctx.case((inp, tuple(name), ms, cs, meas))
                try:
                    acc, totw, rej, npaths, bad = impl_law(pq, pq.PassiveSimulator, ins, d, trials=1, max_paths=30000)
                except SamplerRaises as e_:
                    ctx.report((key if 'key' in locals() else f'{pid}:law:Passive') + ':sampler-raises:' + e_.cls, f"the sampler raises on a path of positive probability: {e_}", replay)
                    continue
                except (SP.Unsupported, NotImplementedCalculation) as e:
                    ctx.notes.setdefault("unsupported", []).append(str(e)[:80])
                    continue
                counters["laws"] += 1
                counters["paths"] += npaths
                got = {o[0]: w for o, w in acc.items()}
                # shots=None: the branch weights are the exact joint probabilities (of the post-selected event and the outcome)
                try:
                    with warnings.catch_warnings():
                        warnings.simplefilter("ignore")
                        rn = pq.PassiveSimulator(d=d).execute(pq.Program(instructions=ins), shots=None)
                    gotn = {tuple(int(x) for x in br.outcome): float(br.frequency) for br in rn.branches if float(br.frequency) > 1e-12}
                    compare_laws(ctx, f"{pid}:weights:Passive:shots-none:postselected:{spelling}", f"PassiveSimulator shots=None branch weights for modes {meas} after {name} on {inp}, post-selected on modes {ms} = {cs}",
                                 gotn, tot, exp, replay, tol=1e-8)
                except NotImplementedCalculation:
                    pass
                except Exception as e:  # noqa
                    ctx.report(f"{pid}:weights:Passive:shots-none:postselected:raises:{type(e).__name__}", f"shots=None measurement of modes {meas} raised {type(e).__name__}: {str(e)[:100]} after {name} on {inp}, "
                               f"post-selected on modes {ms} = {cs}", replay)
                if not compare_laws(ctx, f"{pid}:law:Passive:postselect-order:{spelling}", f"PassiveSimulator sampling of modes {meas} after {name} on {inp}, post-selected on modes {ms} = {cs}",
                                    got, totw - rej, exp, replay, tol=1e-8):
                    ctx.validated()


def part_dyne_spec(ctx, pq, quick, rng, pid="C02"):
    """PqDyne: exact sampling law AND exact conditional state of heterodyne / general-dyne on ordered mode tuples"""
    from .. import dyne_replay as DY
    d = 3
    cat = L.gaussian_catalogue(d)
    sq2 = [g for g in cat if g["name"].startswith("Squeezing2")]
    # always two two-mode squeezers (measured modes entangled with the unmeasured one), the rest at random
    gates = rng.sample(sq2, 2) + rng.sample([g for g in cat if not g["name"].startswith("Squeezing2")], 3 if quick else 6)
    modes = [(0,), (2, 0), (0, 2), (1, 2), (2, 1)]
    dets = ["heterodyne", "generaldyne(2,1/2)"] if quick else list(DY.DETCOVS)
    recs = DY.explore(ctx, d, gates, 1 if quick else 2, modes, dets)
    n = DY.replay(ctx, pq, pid, d, gates, recs, rng)
    ctx.notes.setdefault("dyne_spec", {"states": 0, "cases": 0})
    ctx.notes["dyne_spec"]["states"] += len(recs)
    ctx.notes["dyne_spec"]["cases"] += n


def run(ctx):
    import piquasso as pq
    quick = ctx.tier == "quick"
    rng = random.Random(ctx.seed)
    ctx.assumptions += [
        "the numpy generator and random.Random draw from the distribution they are given (ideal generator); C11 covers stream handling",
        "weights of the Gaussian loop-hafnian chain, of the torontonian chain and of the inverse-CDF homodyne sampler in Fock space are not decided here (continuous intermediates)",
    ]
    part_spec_witness(ctx, quick)
    ctx.tick("spec_witness")
    part_chain_sampler(ctx, pq, quick, rng)
    ctx.tick("chain_sampler")
    part_reference_state(ctx, pq, quick, rng)
    ctx.tick("reference_state")
    part_postselect_order(ctx, pq, quick, rng)
    ctx.tick("postselect_order")
    part_distinguishable_sampler(ctx, pq, quick, rng)
    ctx.tick("distinguishable_sampler")
    part_generaldyne(ctx, pq, quick, rng)
    ctx.tick("generaldyne")
    part_dyne_spec(ctx, pq, quick, rng)
    ctx.tick("dyne_spec")
