"""C01 — all bosonic simulators agree on photon-number statistics.

spec/PqOptics.tla is an exact reference semantics (polynomials in creation operators over Z[sqrt2, i]) of the
number-conserving instruction set on the parameter lattice; TLC explores every gate sequence up to a depth over a
gate catalogue containing every ordered mode tuple, checks norm conservation on the spec, and exports the exact state
after every gate.  Each exported state is replayed on PureFockSimulator (state vector, phases included, at cutoff n+1
and n+2), FockSimulator (density matrix) and PassiveSimulator (detection probabilities): agreement of the simulators
with each other follows from agreement of each with the exact state, and is also checked pairwise.
"""
import random

import numpy as np

from ..common import run_tlc, tlc_ok, MachineryError
from .. import lattice as L
from .. import optics_replay as OR

CFG = """SPECIFICATION Spec
CONSTANTS
  D = %d
  Inputs <- InDef
  Gates <- GDef
  Losses <- LDef
  MeasSets <- MDef
  Perm <- PDef
  CommuteDepth = 0
  MaxDepth = %d
  Measure = FALSE
  Export = TRUE
INVARIANT NormIsOne
INVARIANT SameTotal
INVARIANT ExportState
"""


def explore(ctx, d, gates, inputs, depth, simulate=None, seed=0):
    mod = OR.spec_module("MCPO", d, gates, inputs)
    res = run_tlc("MCPO", "MCPO.cfg", generated={"MCPO.tla": mod, "MCPO.cfg": CFG % (d, depth)}, timeout=3000,
                  simulate=simulate, depth=(depth + 1) if simulate else None, seed=seed if simulate else None)
    if res.violated:
        ctx.report("spec:PqOptics:" + ",".join(map(str, res.violated)), "PqOptics violates its own theorem (oracle broken)", res.out[-2000:])
        return []
    if "Error:" in res.out and not simulate or (simulate and "Error:" in res.out):
        raise MachineryError("PqOptics run failed:\n" + "\n".join(l for l in res.out.splitlines() if not l.startswith('<<"OPT"'))[-2500:])
    ctx.add_tlc(res)
    recs = res.records("OPT")
    seen, out = set(), []
    for r in recs:
        key = (tuple(r["hist"][0]["input"]), tuple(h["gate"] for h in r["hist"][1:]))
        if key not in seen:
            seen.add(key)
            out.append(r)
    return out


def run(ctx):
    import piquasso as pq
    quick = ctx.tier == "quick"
    rng = random.Random(ctx.seed)
    plans = [(3, 12 if quick else 26, 4, 2 if quick else 3, None), (2, 10, 3, 3, None)]
    if not quick:
        plans.append((4, 16, 3, 2, None))
        plans.append((3, 40, 6, 5, 40))        # simulation: deeper sequences over a larger catalogue
    total = 0
    for (d, ng, nin, depth, sim) in plans:
        gates = L.passive_catalogue(d, rng=rng, size=ng)
        inputs = L.inputs(d, 3, rng=rng, size=nin)
        recs = explore(ctx, d, gates, inputs, depth, simulate=sim, seed=ctx.seed)
        ctx.notes.setdefault("explorations", []).append({"d": d, "gates": [g["name"] + str(g["modes"]) for g in gates], "inputs": inputs,
                                                         "depth": depth, "states_exported": len(recs), "mode": "simulate" if sim else "exhaustive"})
        for rec in recs:
            inp, idx, amps = OR.parse_terms(rec)
            n = sum(inp)
            ctx.case((inp, tuple(gates[i]["name"] + str(gates[i]["modes"]) for i in idx)), nontrivial=len(idx) > 0)
            pf, ok1 = OR.compare_purefock(ctx, pq, "C01", gates, inp, idx, amps, cutoff=n + 1)
            if len(idx) <= 2:
                OR.compare_purefock(ctx, pq, "C01", gates, inp, idx, amps, cutoff=n + 2)
            if len(idx) == depth or rng.random() < 0.3:
                fk, ok2 = OR.compare_fock(ctx, pq, "C01", gates, inp, idx, amps, cutoff=n + 1)
                if ok1 and ok2:
                    # pairwise: the quantities both expose
                    if np.abs(np.asarray(pf.fock_probabilities) - np.asarray(fk.fock_probabilities)).max() > 1e-9:
                        ctx.report("C01:pairwise:PureFock-Fock", "PureFock and Fock fock_probabilities differ", {"input": inp})
            if all(gates[i]["passive"] for i in idx):
                OR.compare_passive(ctx, pq, "C01", gates, inp, idx, amps)
            ctx.validated()
            total += 1
        if recs:
            inp, idx, amps = OR.parse_terms(recs[len(recs) // 2])
            ctx.sample({"input": inp, "gates": [gates[i]["name"] + str(gates[i]["modes"]) for i in idx],
                        "exact_amplitudes": {str(k): [round(v.real, 6), round(v.imag, 6)] for k, v in list(amps.items())[:4]}})
    ctx.notes["states_replayed"] = total
    ctx.assumptions += ["parameters restricted to the exact lattice (DESIGN 0.1); behaviour off the lattice is not seen",
                        "active (non number-conserving) gates and the Gaussian simulator are compared in the C07/C14 checks"]
