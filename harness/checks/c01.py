"""C01 — all bosonic simulators agree on photon-number statistics.

spec/PqOptics.tla is an exact reference semantics (polynomials in creation operators over Z[sqrt2, i]) of the
number-conserving instruction set on the parameter lattice; TLC explores every gate sequence up to a depth over a
gate catalogue containing every ordered mode tuple, checks norm conservation on the spec, and exports the exact state
after every gate.  Each exported state is replayed on PureFockSimulator (state vector, phases included, at cutoff n+1
and n+2), FockSimulator (density matrix) and PassiveSimulator (detection probabilities): agreement of the simulators
with each other follows from agreement of each with the exact state, and is also checked pairwise.
"""
import random

import numpy as np

from ..common import run_tlc, tlc_ok, MachineryError
from .. import lattice as L
from .. import optics_replay as OR

CFG = """SPECIFICATION Spec
CONSTANTS
  D = %d
  Inputs <- InDef
  Gates <- GDef
  Losses <- LDef
  MeasSets <- MDef
  Perm <- PDef
  CommuteDepth = 0
  MaxDepth = %d
  Measure = FALSE
  Export = TRUE
INVARIANT NormIsOne
INVARIANT SameTotal
INVARIANT ExportState
"""


def explore(ctx, d, gates, inputs, depth, simulate=None, seed=0):
    mod = OR.spec_module("MCPO", d, gates, inputs)
    res = run_tlc("MCPO", "MCPO.cfg", generated={"MCPO.tla": mod, "MCPO.cfg": CFG % (d, depth)}, timeout=3000,
                  simulate=simulate, depth=(depth + 1) if simulate else None, seed=seed if simulate else None)
    if res.violated:
        ctx.report("spec:PqOptics:" + ",".join(map(str, res.violated)), "PqOptics violates its own theorem (oracle broken)", res.out[-2000:])
        return []
    if "Error:" in res.out and not simulate or (simulate and "Error:" in res.out):
        raise MachineryError("PqOptics run failed:\n" + "\n".join(l for l in res.out.splitlines() if not l.startswith('<<"OPT"'))[-2500:])
    ctx.add_tlc(res)
    recs = res.records("OPT")
    seen, out = set(), []
    for r in recs:
        key = (tuple(r["hist"][0]["input"]), tuple(h["gate"] for h in r["hist"][1:]))
        if key not in seen:
            seen.add(key)
            out.append(r)
    return out


def gaussian_vs_fock(ctx, pq, rng, quick):
    """Gaussian <-> PureFock <-> Fock on TLC-generated lattice programs with active gates and attenuation.  The Gaussian state
    itself is pinned to the exact spec by C07; here the photon-number statistics of the three simulators are compared on the
    sectors the cutoff represents exactly: an active gate is admitted only on pristine (still vacuum) modes, attenuation only
    after displacements (coherent states: the weight above the cutoff is < 1e-9)."""
    import warnings
    from .. import gaussian_replay as GR
    d, cutoff = 2, 10
    cat = []
    for i in range(d):
        for k in range(4):
            cat.append(L.displacement(i, 1, 2, k))
            cat.append(L.squeezing(i, "ln2", k))
        cat.append(L.squeezing(i, "-ln2", 1))
        cat.append(L.quadratic_phase(i, 1, 2))
        for key in L.ATTEN:
            cat.append(L.attenuator(i, key, 0))
        cat.append(L.attenuator(i, "pi/4", 1))
    for (i, j) in ((0, 1), (1, 0)):
        cat.append(L.squeezing2(i, j, "ln2", 1))
        cat.append(L.controlled_x(i, j, 1, 2))
        for g in (L.beamsplitter(i, j, "pi/4", 1), L.beamsplitter(i, j, "atan(4/3)", 0), L.machzehnder(i, j, 1, 2), L.interferometer((i, j), "rot345")):
            cat.append(L._from_passive(g))
    cat.append(L._from_passive(L.phaseshifter(0, 3)))
    gates = rng.sample(cat, 14 if quick else 24)
    recs = GR.explore(ctx, d, gates, 3 if not quick else 2)
    kept = 0
    for rec in recs:
        idx = [i - 1 for i in rec["hist"]]
        if not idx:
            continue
        pristine = set(range(d))
        only_disp = True
        ok = True
        has_att = False
        for i in idx:
            g = gates[i]
            if g.get("chan"):
                has_att = True
                if not only_disp:
                    ok = False
                if "1)" in g["name"].split(",")[-1]:          # thermal attenuator: the Fock simulators document that they do not support it
                    ok = False
            elif not g["passive"]:
                if not set(g["modes"]) <= pristine:
                    ok = False
                pristine -= set(g["modes"])
                if not g["name"].startswith("Displacement"):
                    only_disp = False
                if has_att:
                    ok = False
            else:
                if not set(g["modes"]) <= pristine:
                    pristine -= set(g["modes"])
        if not ok:
            continue
        kept += 1
        names = [gates[i]["name"] + str(gates[i]["modes"]) for i in idx]
        sig = "/".join(n.split("(")[0] for n in names)
        tol = 1e-7 if has_att else 1e-9
        for h in (L.HBARS if not quick else L.HBARS[:2] + L.HBARS[2:]):
            hb = h[4]
            ctx.case(("gauss-fock", tuple(names), hb))
            with warnings.catch_warnings():
                warnings.simplefilter("ignore")
                try:
                    def state_of(S):
                        ins = [pq.Vacuum()] + [gates[i]["mk"](pq).on_modes(*gates[i]["modes"]) for i in idx]
                        return S(d=d, config=pq.Config(hbar=hb, cutoff=cutoff)).execute(pq.Program(instructions=ins)).state
                    sg, sf = state_of(pq.GaussianSimulator), state_of(pq.FockSimulator)
                    pg = np.asarray(sg.fock_probabilities)
                    pp = np.asarray(state_of(pq.PureFockSimulator).fock_probabilities) if not has_att else None
                    pf = np.asarray(sf.fock_probabilities)
                    # phase-sensitive comparison: the density matrices both simulators expose
                    rg, rf = np.asarray(sg.density_matrix), np.asarray(sf.density_matrix)
                    if rg.shape == rf.shape and np.abs(rg - rf).max() > max(tol, 1e-8):
                        ctx.report(f"C01:gaussian-vs-Fock:density_matrix:{sig}:hbar={hb}", f"GaussianSimulator and FockSimulator density matrices differ after {names} (hbar={hb}): max deviation {np.abs(rg - rf).max():.3g}",
                                   {"gates": names, "hbar": hb, "cutoff": cutoff})
                except Exception as e:  # noqa
                    if "not supported in this backend" in str(e):
                        ctx.notes["unsupported_in_backend"] = ctx.notes.get("unsupported_in_backend", 0) + 1
                        continue
                    ctx.report(f"C01:gauss-fock-raises:{type(e).__name__}:{sig}", f"{type(e).__name__}: {str(e)[:100]} for {names} (hbar={hb})", {"gates": names, "hbar": hb})
                    continue
            for label, other in (("PureFock", pp), ("Fock", pf)):
                if other is None:
                    continue
                if np.abs(pg - other).max() > tol:
                    j = int(np.argmax(np.abs(pg - other)))
                    ctx.report(f"C01:gaussian-vs-{label}:{sig}:hbar={hb}", f"GaussianSimulator and {label}Simulator disagree on photon-number probabilities after {names} (hbar={hb}): "
                               f"entry {j}: {pg[j]:.9f} vs {other[j]:.9f}", {"gates": names, "hbar": hb, "cutoff": cutoff})
                    break
        ctx.validated()
    ctx.notes["gaussian_vs_fock_programs"] = kept


def run(ctx):
    import piquasso as pq
    quick = ctx.tier == "quick"
    rng = random.Random(ctx.seed)
    plans = [(3, 12 if quick else 26, 4, 2 if quick else 3, None), (2, 10, 3, 3, None)]
    if not quick:
        plans.append((4, 16, 3, 2, None))
        plans.append((3, 40, 6, 5, 40))        # simulation: deeper sequences over a larger catalogue
    total = 0
    for (d, ng, nin, depth, sim) in plans:
        gates = L.passive_catalogue(d, rng=rng, size=ng)
        inputs = L.inputs(d, 3, rng=rng, size=nin)
        recs = explore(ctx, d, gates, inputs, depth, simulate=sim, seed=ctx.seed)
        ctx.notes.setdefault("explorations", []).append({"d": d, "gates": [g["name"] + str(g["modes"]) for g in gates], "inputs": inputs,
                                                         "depth": depth, "states_exported": len(recs), "mode": "simulate" if sim else "exhaustive"})
        for rec in recs:
            inp, idx, amps = OR.parse_terms(rec)
            n = sum(inp)
            ctx.case((inp, tuple(gates[i]["name"] + str(gates[i]["modes"]) for i in idx)), nontrivial=len(idx) > 0)
            pf, ok1 = OR.compare_purefock(ctx, pq, "C01", gates, inp, idx, amps, cutoff=n + 1)
            if len(idx) <= 2:
                OR.compare_purefock(ctx, pq, "C01", gates, inp, idx, amps, cutoff=n + 2)
            if len(idx) == depth or rng.random() < 0.3:
                fk, ok2 = OR.compare_fock(ctx, pq, "C01", gates, inp, idx, amps, cutoff=n + 1)
                if ok1 and ok2:
                    # pairwise: the quantities both expose
                    if np.abs(np.asarray(pf.fock_probabilities) - np.asarray(fk.fock_probabilities)).max() > 1e-9:
                        ctx.report("C01:pairwise:PureFock-Fock", "PureFock and Fock fock_probabilities differ", {"input": inp})
            if all(gates[i]["passive"] for i in idx):
                OR.compare_passive(ctx, pq, "C01", gates, inp, idx, amps)
            ctx.validated()
            total += 1
        if recs:
            inp, idx, amps = OR.parse_terms(recs[len(recs) // 2])
            ctx.sample({"input": inp, "gates": [gates[i]["name"] + str(gates[i]["modes"]) for i in idx],
                        "exact_amplitudes": {str(k): [round(v.real, 6), round(v.imag, 6)] for k, v in list(amps.items())[:4]}})
    ctx.notes["states_replayed"] = total
    gaussian_vs_fock(ctx, pq, rng, quick)
    ctx.assumptions += ["parameters restricted to the exact lattice (DESIGN 0.1); behaviour off the lattice is not seen",
                        "active (non number-conserving) gates and the Gaussian simulator are compared in the C07/C14 checks"]
