"""PqDyne behaviours: general-dyne measurement of an ordered mode tuple of a lattice Gaussian state (exact sampling
covariance, gain matrix and conditional covariance) replayed on GaussianSimulator with a recording generator."""
import re
import warnings

import numpy as np

from . import lattice as L
from . import gaussian_replay as GR
from .common import run_tlc, MachineryError

CFG = """SPECIFICATION Spec
CONSTANTS
  D = %d
  Gates <- GDef
  MaxDepth = %d
  HBars <- HDef
  Export = FALSE
  DyneModes <- DMDef
  DetCovs <- DCDef
  ExportDyne = TRUE
INVARIANT GamHermitian
INVARIANT CCR
INVARIANT DyneCheck
"""

DETCOVS = {
    "heterodyne": ([[L.q(L.ring(1)), L.q(L.ring(0))], [L.q(L.ring(0)), L.q(L.ring(1))]], lambda pq: pq.HeterodyneMeasurement(), np.identity(2)),
    "generaldyne(2,1/2)": ([[L.q(L.ring(2)), L.q(L.ring(0))], [L.q(L.ring(0)), L.q(L.ring(1), 2)]],
                           lambda pq: pq.GeneraldyneMeasurement(np.array([[2.0, 0.0], [0.0, 0.5]])), np.array([[2.0, 0.0], [0.0, 0.5]])),
    "generaldyne(5/4,3/4;3/4,5/4)": ([[L.q(L.ring(5), 4), L.q(L.ring(3), 4)], [L.q(L.ring(3), 4), L.q(L.ring(5), 4)]],
                                     lambda pq: pq.GeneraldyneMeasurement(np.array([[1.25, 0.75], [0.75, 1.25]])), np.array([[1.25, 0.75], [0.75, 1.25]])),
}


def explore(ctx, d, gates, depth, dynemodes, detnames):
    def attempt(depth_, dets_):
        extra = "DMDef == { %s }\n" % ", ".join("<<" + ", ".join(map(str, m)) + ">>" for m in dynemodes)
        extra += "DCDef == << %s >>\n" % ", ".join('[name |-> "%s", m |-> %s]' % (n, L.tla_qmat(DETCOVS[n][0])) for n in dets_)
        mod = GR.spec_module("MCPG", d, gates, extra).replace("EXTENDS PqGaussian", "EXTENDS PqDyne")
        return run_tlc("MCPG", "MCPG.cfg", generated={"MCPG.tla": mod, "MCPG.cfg": CFG % (d, depth_)}, timeout=3000)
    # 32-bit integers: the Gauss-Jordan inverse of deep states / non-diagonal detectors can overflow (a TLC error, never silent):
    # explore one gate less, then without the non-diagonal detector, and record the reduction
    plans = [(depth, list(detnames))] + [(dd, list(detnames)) for dd in range(depth - 1, 0, -1)] + [(1, list(detnames)[:2])]
    res = None
    for k, (dd, dets) in enumerate(plans):
        res = attempt(dd, dets)
        if "Overflow when computing" not in res.out:
            if k > 0:
                ctx.notes.setdefault("dyne_overflow_reductions", []).append({"d": d, "depth": dd, "detectors": dets})
            break
    if "Overflow when computing" in res.out:
        ctx.notes.setdefault("dyne_overflow_reductions", []).append({"d": d, "unresolved": True})
        return []
    if res.violated:
        ctx.report("spec:PqDyne:" + ",".join(map(str, res.violated)), "PqDyne violates its own theorem (oracle broken)", res.out[-2000:])
        return []
    if "Error:" in res.out:
        raise MachineryError("PqDyne run failed:\n" + "\n".join(l for l in res.out.splitlines() if not l.startswith('<<"DYNE"'))[-2500:])
    ctx.add_tlc(res)
    out, seen = [], set()
    for r in res.records("DYNE"):
        k = tuple(r["hist"])
        if k in seen:
            continue
        seen.add(k)
        cases = []
        for per_h in r["cases"]:
            for mskey, per_det in per_h.items():
                ms = tuple(int(x) for x in re.findall(r"-?\d+", mskey))
                for c in per_det:
                    cases.append({"hbar": c["hbar"][0] / c["hbar"][1], "modes": ms, "det": c["det"],
                                  "B": mat(c["B"]), "K": mat(c["K"]), "cov": mat(c["cov"]), "meanM": vec(c["meanM"]), "meanA": vec(c["meanA"])})
        out.append({"idx": [i - 1 for i in r["hist"]], "cases": cases})
    return out


def mat(M):
    return np.array([[GR.qv(x) for x in row] for row in M]).real


def vec(v):
    return np.array([GR.qv(x) for x in v]).real


class NormalRecorder:
    """stands in for config.rng: records the request and returns mean + delta (a fixed, asymmetric offset)"""
    DELTA = np.array([0.3, -0.2, 0.5, 0.1, -0.4, 0.25])

    def __init__(self):
        self.calls = []

    def multivariate_normal(self, mean, cov, size=None, **kw):
        mean, cov = np.array(mean, dtype=float), np.array(cov, dtype=float)
        self.calls.append((mean, cov, size))
        k = 1 if size is None else int(size)
        return np.array([mean + self.DELTA[:len(mean)] * (1 + i) for i in range(k)])

    def __deepcopy__(self, memo):
        return self


def replay(ctx, pq, pid, d, gates, recs, rng, per_state=None):
    """sampling law handed to the generator and conditional state of every exported case"""
    n = 0
    for rec in recs:
        idx = rec["idx"]
        name = [gates[i]["name"] + str(gates[i]["modes"]) for i in idx]
        cases = rec["cases"] if per_state is None else rng.sample(rec["cases"], min(per_state, len(rec["cases"])))
        for c in cases:
            hbar, ms, det = c["hbar"], c["modes"], c["det"]
            rr = NormalRecorder()
            cfg = pq.Config(hbar=hbar, seed_sequence=1)
            cfg.rng = rr
            replay_info = {"gates": name, "hbar": hbar, "modes": ms, "measurement": det}
            ordered = "ascending" if list(ms) == sorted(ms) else "non-ascending"
            ctx.case((tuple(idx), hbar, ms, det))
            with warnings.catch_warnings():
                warnings.simplefilter("ignore")
                ins = [pq.Vacuum()] + [gates[i]["mk"](pq).on_modes(*gates[i]["modes"]) for i in idx] + [DETCOVS[det][1](pq).on_modes(*ms)]
                try:
                    r = pq.GaussianSimulator(d=d, config=cfg).execute(pq.Program(instructions=ins), shots=1)
                except Exception as e:  # noqa
                    ctx.report(f"{pid}:generaldyne:raises:{det}:{type(e).__name__}", f"{det} on {ms} after {name} raised {type(e).__name__}: {str(e)[:120]}", replay_info)
                    continue
            n += 1
            if len(rr.calls) != 1:
                ctx.report(f"{pid}:generaldyne:{det}:calls", f"{det}: multivariate_normal called {len(rr.calls)} times", replay_info)
                continue
            m, cv, size = rr.calls[0]
            scale = max(1.0, np.abs(c["B"]).max())
            if np.abs(m - c["meanM"]).max() > 1e-8 * scale:
                ctx.report(f"{pid}:generaldyne:{det}:mean:{ordered}", f"{det} on {ms} after {name} (hbar={hbar}): sampling mean {np.round(m, 6)}, exact <R>_M {np.round(c['meanM'], 6)}", replay_info)
                continue
            if np.abs(cv - c["B"] / 2.0).max() > 1e-8 * scale:
                ctx.report(f"{pid}:generaldyne:{det}:covariance:{ordered}", f"{det} on {ms} after {name} (hbar={hbar}): sampling covariance diag {np.round(np.diag(cv), 6)}, "
                           f"exact (sigma_M + sigma_m)/2 diag {np.round(np.diag(c['B']) / 2, 6)}", replay_info)
                continue
            sample = np.asarray(r.samples[0], dtype=float)
            if len(sample) != 2 * len(ms):
                ctx.report(f"{pid}:shape:Gaussian:{det}", f"{det} on {len(ms)} mode(s): sample has {len(sample)} entries", replay_info)
                continue
            st = r.state
            delta = sample - c["meanM"]
            exp_mean = c["meanA"] + c["K"] @ delta
            got_mean = np.asarray(st.xpxp_mean_vector)
            got_cov = np.asarray(st.xpxp_covariance_matrix)
            if got_mean.shape != exp_mean.shape or np.abs(got_mean - exp_mean).max() > 1e-8 * scale:
                ctx.report(f"{pid}:generaldyne:{det}:conditional-mean:{ordered}", f"{det} on {ms} after {name} (hbar={hbar}): mean of the post-measurement state {np.round(got_mean, 6)}, "
                           f"exact r_A + C B^-1 (r_m - r_M) = {np.round(exp_mean, 6)}", replay_info)
            elif np.abs(got_cov - c["cov"]).max() > 1e-8 * scale:
                ctx.report(f"{pid}:generaldyne:{det}:conditional-covariance:{ordered}", f"{det} on {ms} after {name} (hbar={hbar}): covariance of the post-measurement state differs from "
                           f"sigma_A - C B^-1 C^T (max {np.abs(got_cov - c['cov']).max():.3g})", replay_info)
            else:
                ctx.validated()
    return n
