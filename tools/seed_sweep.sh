#!/bin/bash
# usage: seed_sweep.sh <seed> [ids...]  -- runs the quick tier of every (or the given) check with VERIF_SEED=<seed>; summary in /tmp/sweep_<seed>.out
seed=$1; shift
ids="$@"; [ -z "$ids" ] && ids="C01 C02 C03 C04 C05 C06 C07 C08 C09 C10 C11 C12 C13 C14 C15 C16 C17 C18 C19 C20"
cd /verif
for id in $ids; do
  VERIF_SEED=$seed timeout 3000 ./check $id --tier quick > /tmp/sweep_${seed}_$id.log 2>&1; rc=$?
  echo "[$id seed=$seed] rc=$rc $(grep -c '^VIOLATION' /tmp/sweep_${seed}_$id.log) violations; $(tail -1 /tmp/sweep_${seed}_$id.log | cut -c1-160)" >> /tmp/sweep_$seed.out
  grep -E '^VIOLATION|^MACHINERY' /tmp/sweep_${seed}_$id.log | cut -c1-300 | head -3 >> /tmp/sweep_$seed.out
done
echo done >> /tmp/sweep_$seed.out
