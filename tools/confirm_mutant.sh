#!/bin/bash
# usage: confirm_mutant.sh <Cxx> <k>   (expects /tmp/mut_<Cxx>/m<k>.{patch.diff,demo.py,meta.json})
# Confirms in a scratch worktree: demo fails with the patch, passes without; full test suite passes with the patch.
id=$1; k=$2; name=${id}_m$k; wt=/tmp/cwt_$name; out=/tmp/confirm/$name
mkdir -p /tmp/confirm; rm -f $out.*
/verif/tools/mkwt.sh $wt >/dev/null || exit 3
cd $wt
./py /tmp/mut_$id/m$k.demo.py > $out.demo_clean.log 2>&1; echo "demo_clean_rc=$?" > $out.result
git apply /tmp/mut_$id/m$k.patch.diff || { echo "apply_failed=1" >> $out.result; }
./py /tmp/mut_$id/m$k.demo.py > $out.demo_mut.log 2>&1; echo "demo_mut_rc=$?" >> $out.result
./py -m pytest -q -p no:cacheprovider --timeout=900 --continue-on-collection-errors -x -n 4 tests > $out.tests.log 2>&1; echo "tests_rc=$?" >> $out.result
tail -1 $out.tests.log >> $out.result
cd /; git -C /repo worktree remove --force $wt
echo "done" >> $out.result
