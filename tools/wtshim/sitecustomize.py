# Redirect `import piquasso` to a scratch worktree named by $PQ_WT (used for
# seeded-mutant work only; never needed by registered checks, which run on /repo).
import os, sys
_wt = os.environ.get("PQ_WT")
if _wt:
    sys.meta_path[:] = [f for f in sys.meta_path
                        if type(f).__name__ not in ("ScikitBuildRedirectingFinder", "ScikitBuildInplaceFinder")
                        or "piquasso" not in getattr(f, "known_source_files", {})]
    sys.path.insert(0, _wt)
