#!/bin/bash
# usage: try_mutant.sh <patch.diff> <Cxx> [tier]   -- applies the patch in a scratch worktree of /repo HEAD and runs the check on it
p="$1"; id="$2"; tier="${3:-quick}"
wt=/tmp/mwt_$(basename $(dirname "$p"))_$(basename "$p" .patch.diff)_$id
/verif/tools/mkwt.sh $wt >/dev/null || exit 3
git -C $wt apply "$p" || { echo "patch does not apply"; git -C /repo worktree remove --force $wt; exit 3; }
log=/tmp/mutrun_$(basename $(dirname "$p"))_$(basename "$p" .patch.diff)_$id.log
( cd /verif && mkdir -p /tmp/ev_bak && cp evidence/$id.json /tmp/ev_bak/$id.json.$$ 2>/dev/null; VERIF_REPO=$wt timeout 3000 ./check $id --tier $tier > $log 2>&1; rc=$?; cp /tmp/ev_bak/$id.json.$$ evidence/$id.json 2>/dev/null; exit $rc ); rc=$?
git -C /repo worktree remove --force $wt
echo "[$(basename $(dirname "$p"))/$(basename "$p") vs $id] rc=$rc violations=$(grep -c '^VIOLATION' $log) known=$(grep -c '^KNOWN' $log)"
grep -E '^VIOLATION|^MACHINERY' $log | cut -c1-240 | head -${4:-2}
