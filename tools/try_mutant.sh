#!/bin/bash
# usage: try_mutant.sh <patch.diff> <Cxx> [tier]   -- apply to /repo, run the check, always restore
p="$1"; id="$2"; tier="${3:-quick}"
cd /repo && git diff --quiet || { echo "/repo dirty; abort"; exit 3; }
git -C /repo apply "$p" || { echo "patch does not apply"; exit 3; }
cp /verif/evidence/$id.json /tmp/ev_$id.bak 2>/dev/null
( cd /verif && timeout 3000 ./check $id --tier $tier > /tmp/mutrun_$id.log 2>&1 ); rc=$?
git -C /repo checkout -- . 
cp /tmp/ev_$id.bak /verif/evidence/$id.json 2>/dev/null
echo "rc=$rc  violations: $(grep -c '^VIOLATION' /tmp/mutrun_$id.log)  known: $(grep -c '^KNOWN' /tmp/mutrun_$id.log)"
grep -E '^VIOLATION|^MACHINERY' /tmp/mutrun_$id.log | cut -c1-260 | head -${4:-3}
tail -1 /tmp/mutrun_$id.log | cut -c1-200
