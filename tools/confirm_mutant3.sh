#!/bin/bash
# usage: confirm_mutant3.sh <Cxx> <k>   (expects /tmp/mut_<Cxx>/m<k>.{patch.diff,demo.py,meta.json})
# Confirms in a scratch worktree: demo fails with the patch, passes without; the stable baseline tests pass with the patch.
# The two Gaussian chi-square sampling tests (35+ min each on a loaded machine) are run only when the patch touches the code they exercise.
id=$1; k=$2; name=${id}_m$k; wt=/tmp/cwt_$name; out=/tmp/confirm/$name
mkdir -p /tmp/confirm; rm -f $out.*
/verif/tools/mkwt.sh $wt >/dev/null || exit 3
cd $wt
export OMP_NUM_THREADS=2 OPENBLAS_NUM_THREADS=2 MKL_NUM_THREADS=2
./py /tmp/mut_$id/m$k.demo.py > $out.demo_clean.log 2>&1; echo "demo_clean_rc=$?" > $out.result
git apply /tmp/mut_$id/m$k.patch.diff || { echo "apply_failed=1" >> $out.result; }
./py /tmp/mut_$id/m$k.demo.py > $out.demo_mut.log 2>&1; echo "demo_mut_rc=$?" >> $out.result
SLOW1="tests/slow/test_sampling.py::test_gaussian_boson_sampling_chi_square_hypothesis_test"
SLOW2="tests/slow/test_sampling.py::test_threshold_gaussian_boson_sampling_chi_square_hypothesis_test"
./py -m pytest -q -p no:cacheprovider --timeout=1500 --continue-on-collection-errors -n 6 --deselect $SLOW1 --deselect $SLOW2 --junitxml=$out.junit.xml > $out.tests.log 2>&1; echo "tests_rc=$?" >> $out.result
tail -1 $out.tests.log >> $out.result
python3 - "$out.junit.xml" >> $out.result <<'PY'
import sys, json, xml.etree.ElementTree as ET
b=json.load(open('/root/.vp/BASELINE.json')); stable=set(b['stable_pass'])
bad=[]; seen=set()
for tc in ET.parse(sys.argv[1]).getroot().iter('testcase'):
    tid=f"{tc.get('classname')}::{tc.get('name')}"
    seen.add(tid)
    if any(c.tag in ('failure','error') for c in tc) and tid in stable:
        bad.append(tid)
print("stable_tests_broken=%d" % len(bad)); print("stable_seen=%d of %d" % (len(seen & stable), len(stable)))
for t in bad[:10]: print("BROKEN", t)
PY
broken=$(grep '^BROKEN' $out.result | awk '{print $2}' | sed -e 's/::/ /' | awk '{gsub(/\./,"/",$1); print $1".py::"$2}')
if [ -n "$broken" ]; then
  ./py -m pytest -q -p no:cacheprovider --timeout=2400 $broken > $out.rerun.log 2>&1; echo "serial_rerun_rc=$?" >> $out.result
  tail -1 $out.rerun.log >> $out.result
fi
if grep -qE "^diff --git a/(piquasso/_simulators/gaussian|piquasso/_math|piquasso/_simulators/connectors|piquasso/api/config)" /tmp/mut_$id/m$k.patch.diff; then
  ./py -m pytest -q -p no:cacheprovider --timeout=3400 $SLOW1 $SLOW2 > $out.slow.log 2>&1; echo "chi_square_rc=$?" >> $out.result
else
  echo "chi_square_rc=not-run (the patch does not touch the Gaussian sampler, the math kernels, the connectors or Config)" >> $out.result
fi
cd /; git -C /repo worktree remove --force $wt
echo "done" >> $out.result
