#!/bin/bash
# usage: confirm_mutant.sh <Cxx> <k>   (expects /tmp/mut_<Cxx>/m<k>.{patch.diff,demo.py,meta.json})
# Confirms in a scratch worktree: demo fails with the patch, passes without; the stable baseline tests pass with the patch.
id=$1; k=$2; name=${id}_m$k; wt=/tmp/cwt_$name; out=/tmp/confirm/$name
mkdir -p /tmp/confirm; rm -f $out.*
/verif/tools/mkwt.sh $wt >/dev/null || exit 3
cd $wt
./py /tmp/mut_$id/m$k.demo.py > $out.demo_clean.log 2>&1; echo "demo_clean_rc=$?" > $out.result
git apply /tmp/mut_$id/m$k.patch.diff || { echo "apply_failed=1" >> $out.result; }
./py /tmp/mut_$id/m$k.demo.py > $out.demo_mut.log 2>&1; echo "demo_mut_rc=$?" >> $out.result
./py -m pytest -q -p no:cacheprovider --timeout=900 --continue-on-collection-errors -n 6 --junitxml=$out.junit.xml > $out.tests.log 2>&1; echo "tests_rc=$?" >> $out.result
tail -1 $out.tests.log >> $out.result
python3 - "$out.junit.xml" >> $out.result <<'PY'
import sys, json, xml.etree.ElementTree as ET
b=json.load(open('/root/.vp/BASELINE.json')); stable=set(b['stable_pass'])
bad=[]; seen=set()
for tc in ET.parse(sys.argv[1]).getroot().iter('testcase'):
    tid=f"{tc.get('classname')}::{tc.get('name')}"
    seen.add(tid)
    if any(c.tag in ('failure','error') for c in tc) and tid in stable:
        bad.append(tid)
print("stable_tests_broken=%d" % len(bad)); print("stable_seen=%d of %d" % (len(seen & stable), len(stable)))
for t in bad[:10]: print("BROKEN", t)
PY
# tests that depend on process-global random state can fail under xdist: re-run the broken ones serially
broken=$(grep '^BROKEN' $out.result | awk '{print $2}' | sed -e 's/::/ /' | awk '{gsub(/\./,"/",$1); print $1".py::"$2}')
if [ -n "$broken" ]; then
  ./py -m pytest -q -p no:cacheprovider --timeout=1800 $broken > $out.rerun.log 2>&1; echo "serial_rerun_rc=$?" >> $out.result
  tail -1 $out.rerun.log >> $out.result
fi
cd /; git -C /repo worktree remove --force $wt
echo "done" >> $out.result
