#!/usr/bin/env python3
"""Regenerates /verif/MANIFEST.json from the table below (single source of truth)."""
import json, pathlib
V = pathlib.Path(__file__).resolve().parent.parent
ALL = [f"C{i:02d}" for i in range(1, 21)]
CLAIMED = {
 "C06": dict(
   category="model_checking", design_ref="§3 C06",
   text="TLC explores the enumeration loops of the bosonic and fermionic Fock bases exhaustively (quick d<=5,c<=6 / fermionic d<=7; thorough d<=7,c<=9 / d<=10), proving on the spec that the row written at position p has rank p and that sectors tile the index range; the implementation's complete arrays and every index/dimension function are compared with that behaviour row by row, plus random large vectors against the spec's rank evaluated by TLC.",
   note="Trusted: TLC, numpy equality. Rank formula cross-checked against the declarative order only on small bases.",
   technique="TLA+ state machine of the enumeration loop + TLC exhaustive + behaviour replay into the index functions",
   engine="FockBasis"),
}
CLAIMED["C20"] = dict(
   category="model_checking", design_ref="§3 C20",
   text="PqExpr.tla is an exact reference semantics of the expression fragment (CPython int/bool/float/tuple/list rules, short circuit, chained comparison, index/slice normalisation, error classes) with an AST enumerator and a minimal-parenthesis printer; TLC enumerates all ASTs <=3 postfix tokens exhaustively and simulates ~15k (thorough ~150k) up to 9 tokens, for all outcome tuples of length <=2 (3). Every expression is checked three ways (spec value = piquasso Expression = CPython eval), again with np.int32 operands and through Instruction.when / string parameters. Rejection: hostile corpus + token mutations must raise InvalidExpression at construction with no exec/import/os audit events; every recorded construction/call is trace-validated by TLC against PqExprLife.tla (accept decision = spec grammar, no evaluation unless accepted).",
   note="Trusted: TLC, CPython's parser and eval as the meaning of 'what Python means' (spec/CPython disagreement is a machinery failure). numpy-scalar semantics are compared only where CPython gives the same answer for np.int32 and int operands.",
   technique="TLA+ reference interpreter + TLC enumeration/simulation replayed into Expression, three-way with CPython; TLC trace validation of the expression life cycle",
   engine="PqExpr")
NOT_APPLICABLE_REASON = {}
def main():
    checks = []
    for pid, c in CLAIMED.items():
        checks.append({
            "property_id": pid,
            "quick_cmd": f"./check {pid} --tier quick",
            "thorough_cmd": f"./check {pid} --tier thorough",
            "evidence_file": f"/verif/evidence/{pid}.json",
            "replay_cmd_template": "./check replay {path}",
            "engine": c.get("engine", ""),
            "level_claimed": {"category": c["category"], "text": c["text"], "design_ref": c["design_ref"]},
            "level_note": c["note"],
            "technique": c["technique"],
        })
    na = [{"property_id": p, "reason": NOT_APPLICABLE_REASON.get(p, "check not built yet in this round (see DESIGN.md §5 plan); not claimed")}
          for p in ALL if p not in CLAIMED]
    m = {
        "version": 1,
        "setup_cmd": "./setup.sh",
        "hooks": {
            "guard": "PIQUASSO_VERIF",
            "enable": "no source hooks: the recorder patches attributes from the harness at run time (PIQUASSO_VERIF=1 is exported by ./check for future guarded hooks)",
            "baseline_off_cmd": "cd /repo && /venv/bin/python -m pytest -ra -q -p no:cacheprovider --timeout=900 --continue-on-collection-errors",
            "source_commits": [],
            "add_only": True,
        },
        "engines": json.loads((V / "tools" / "engines.json").read_text()) if (V / "tools" / "engines.json").exists() else [],
        "checks": checks,
        "notes": "All checks: TLA+ spec (spec/*.tla) checked with TLC, then bound to /repo by replaying TLC-generated behaviours into the real code and/or validating recorded traces. ./check <id> --tier quick|thorough; exit 2 = machinery failure.",
        "not_applicable": na,
    }
    (V / "MANIFEST.json").write_text(json.dumps(m, indent=1) + "\n")
if __name__ == "__main__":
    main()
