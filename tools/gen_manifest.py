#!/usr/bin/env python3
"""Regenerates /verif/MANIFEST.json from the table below (single source of truth)."""
import json, pathlib
V = pathlib.Path(__file__).resolve().parent.parent
ALL = [f"C{i:02d}" for i in range(1, 21)]
CLAIMED = {
 "C06": dict(
   category="model_checking", design_ref="§3 C06",
   text="TLC explores the enumeration loops of the bosonic and fermionic Fock bases exhaustively (quick d<=5,c<=6 / fermionic d<=7; thorough d<=7,c<=9 / d<=10), proving on the spec that the row written at position p has rank p and that sectors tile the index range; the implementation's complete arrays and every index/dimension function are compared with that behaviour row by row, plus random large vectors against the spec's rank evaluated by TLC.",
   note="Trusted: TLC, numpy equality. Rank formula cross-checked against the declarative order only on small bases.",
   technique="TLA+ state machine of the enumeration loop + TLC exhaustive + behaviour replay into the index functions",
   engine="FockBasis"),
}
CLAIMED["C20"] = dict(
   category="model_checking", design_ref="§3 C20",
   text="PqExpr.tla is an exact reference semantics of the expression fragment (CPython int/bool/float/tuple/list rules, short circuit, chained comparison, index/slice normalisation, error classes) with an AST enumerator and a minimal-parenthesis printer; TLC enumerates all ASTs <=3 postfix tokens exhaustively and simulates ~15k (thorough ~150k) up to 9 tokens, for all outcome tuples of length <=2 (3). Every expression is checked three ways (spec value = piquasso Expression = CPython eval), again with np.int32 operands and through Instruction.when / string parameters. Rejection: hostile corpus + token mutations must raise InvalidExpression at construction with no exec/import/os audit events; every recorded construction/call is trace-validated by TLC against PqExprLife.tla (accept decision = spec grammar, no evaluation unless accepted).",
   note="Trusted: TLC, CPython's parser and eval as the meaning of 'what Python means' (spec/CPython disagreement is a machinery failure). numpy-scalar semantics are compared only where CPython gives the same answer for np.int32 and int operands.",
   technique="TLA+ reference interpreter + TLC enumeration/simulation replayed into Expression, three-way with CPython; TLC trace validation of the expression life cycle",
   engine="PqExpr")
CLAIMED["C03"] = dict(
   category="model_checking", design_ref="§3 C03",
   text="PqEngine.tla is a state machine of Simulator.execute_instructions (one action per critical section); TLC checks ShotsConserved / NoneWeightsSumToOne / OutcomeLenMonotone exhaustively over all adaptive programs with <=3 instructions on 2 modes, shots 1..3(4) and None and every split of shots among outcomes (~9e5 states). Random behaviours are exported and replayed into PureFockSimulator with the sampler forced to the behaviour's outcome counts (final branches, len(samples), sum(counts) must match), and every execution -- forced replays, natural adaptive programs on all six simulators, and in the thorough tier the repository's own measurement tests -- is recorded event by event and validated by TLC against PqEngineTrace.tla (exact Fraction k/N frequencies, chain rule, normalised projective branch states with shots=None, Result accounting).",
   note="Trusted: TLC, the recorder's patch points. Physics of branch states is compared exactly in the C01/C05 replays; here weights are fixed-point 1e-4 with tolerance.",
   technique="TLA+ state machine of the execution engine + TLC exhaustive + forced-outcome replay + TLC trace validation of recorded executions",
   engine="PqEngine")
CLAIMED["C04"] = dict(
   category="model_checking", design_ref="§3 C04",
   text="MatrixFunctions.tla states the combinatorial definitions (permanent with multiplicities, Laplace vector, hafnian, loop hafnian with reduction, Pfaffian, torontonian as (sign, det) lists) over Gaussian integers; GrayPermanent.tla is a line-by-line state machine of permanent_cpp + n_aryGrayCodeCounter whose invariants (reflected Gray code, binomial product, cover-exactly-once for every job partition K=0..6(16), result = 2^(N-1) PermDef, int range) are checked by TLC per instance; BigNat.tla gives closed forms for multiplicities up to 40 and the int64 range theorem. Replay: the C++ rebuilt from /repo/src (float/double, every forced hardware_concurrency), the real Gray-code class stepped along TLC's behaviour, prebuilt Python entry points, numba hafnians, connector functions; the permanent corpus also runs under an ASan+UBSan build (any report is a violation).",
   note="The pybind11 glue cannot be rebuilt (no pybind11): prebuilt .so entry points are exercised as they are; accuracy for large generic complex matrices is out of reach.",
   technique="TLA+ definitions + state machine of the Gray-code permanent checked by TLC; exact values replayed into rebuilt C++ and Python kernels; sanitizers",
   engine="GrayPermanent")
CLAIMED["C11"] = dict(
   category="model_checking", design_ref="§3 C11",
   text="PqRng.tla models ownership of random streams (process-global generator re-seeded by every Config, Config.rng shared with copies, per-shot default_rng(seed+idx)); TLC checks Reproducible / NoDrawUsedTwice / OwnStreamsOnly over every interleaving of foreign activity with two create/execute runs, and shows at model level that a sampler drawing from the global stream violates them. Binding: the stream each of 12 sampling families really consumes is observed (random.*, Config.rng proxy, default_rng) and must be an owned one; every exported interleaving is replayed on the real objects (equal samples for equal seeds, different seeds differ, dask on/off equal). GrayPermanent: CoverExactlyOnce / ResultIsPermanent for hardware_concurrency 0..16 replayed through the rebuilt C++; deterministic quantities compared across NUMBA/OMP thread counts in fresh processes.",
   note="numpy/python generators trusted to be deterministic functions of (seed, position).",
   technique="TLA+ model of RNG stream ownership + TLC over interleavings, replayed on real simulators; job-partition state machine for the native permanent",
   engine="PqRng")
CLAIMED["C12"] = dict(
   category="model_checking", design_ref="§3 C12",
   text="PqEngine.tla states the frame condition (FrameOnEnd) with an exception enabled at every instruction position x stage (condition, resolve, validate, step); TLC checks it exhaustively (MCEngine_frame). Each exported (program, fault point) is replayed on the real engine with the exception injected at exactly that point; instruction modes, params (arrays by bytes), conditions are snapshotted before and compared after, and the recorded trace (its end event carries the frame on return AND on raise) is validated by TLC. Plus natural runs on all simulators, validate/copy/as_code/execute-twice, initial_state and Config snapshots, and byte comparison of every array handed to connector matrix functions and native kernels in C/F/strided/read-only layouts.",
   note="Config.rng position is shared by design and not part of the frame; str -> Expression with equal source text is not counted as a change.",
   technique="TLA+ frame condition with fault actions + TLC; fault-injection replay and TLC trace validation; byte snapshots",
   engine="PqEngine")
CLAIMED["C13"] = dict(
   category="model_checking", design_ref="§3 C13",
   text="PqEngine.tla's validation layer predicts, for every structural rule, that execution fails before any simulation step and with which exception class (RejectBeforeEvolve), and that valid programs end Done on every outcome history (NeverRefuseValid); TLC checks both exhaustively over single-fault mutants (MCEngine_validate). Replay: ~250 single-fault mutations of valid base programs on all six simulators (negative/out-of-range/repeated mode, arity, preparation after gate, unsupported mid-circuit measurement, invalid shots, shots=None unsupported, mismatching initial state, documented parameter errors) must raise a PiquassoException with zero recorded simulation steps, and their traces must be accepted by PqEngineTrace; every instruction in each simulator's documented support list must execute for cutoff 1..3(4); forced outcome histories from the spec must all complete.",
   note="Documented support = :class: references in simulator docstrings.",
   technique="TLA+ validation model + TLC over single-fault mutants; replay on all simulators with TLC trace validation",
   engine="PqEngine")
CLAIMED["C01"] = dict(
   category="model_checking", design_ref="§3 C01",
   text="PqOptics.tla is an exact reference semantics of number-conserving photonics (polynomials in creation operators over Z[sqrt2, i], gates = documented one-particle matrices on the parameter lattice, every ordered mode tuple); TLC explores all gate sequences to depth 2-3 on d=2,3(,4) modes (thorough: simulation to depth 5), checks exact norm conservation on the spec and exports the exact state after every gate; each exported state is replayed on PureFockSimulator (state vector incl. phases at cutoff n+1 and n+2), FockSimulator (density matrix) and PassiveSimulator (detection probabilities) at 1e-9. Agreement between simulators follows from agreement of each with the exact state and is also compared pairwise.",
   note="Parameters on the exact lattice only; active gates and the Gaussian simulator are not yet covered by this check (see C07/C14 status).",
   technique="exact TLA+ reference semantics over Z[sqrt2,i] explored by TLC; exported behaviours replayed on every simulator",
   engine="PqOptics")
CLAIMED["C02"] = dict(
   category="model_checking", design_ref="§3 C02",
   text="PqSampler.tla (extends PqOptics) models the chain-rule sampler of the passive simulator as a probabilistic state machine (reject-by-loss, uniform choice of the next particle, Laplace-expansion pmf, post-selection pruning, abort/accept); TLC pushes the exact distribution (weights in Q(sqrt2)) through every loop iteration and proves on every instance (d<=3, n<=3, all post-selection patterns, uniform loss 4/5 and 1/sqrt2) that the accepted law equals the Born law of the PqOptics reference state; the variant with the pre-fix loop is rejected by TLC (vacuity guard). The implementation's law is obtained EXACTLY, not statistically: the real simulator is run once per path of its RNG decision tree with a scripted generator and the probabilities it hands to the generator are multiplied (harness/sampler_paths.py); it must equal the exported law (acceptance probability, conditional law, second trial after an abort). The same enumeration against Born marginals of PqOptics states covers subset measurements (direct marginal sampler / projection) and non-uniform loss (doubled interferometer); probability maps handed to the categorical primitive by PureFock/Fock simulators are compared with the exact marginals; (mean, covariance, size) handed to multivariate_normal by homodyne/heterodyne/general-dyne are compared with PqGaussian's (<R>_M, (sigma_M+sigma_m)/2) for hbar in {1/2, 2, 8}; sample length = number of measured quantities.",
   note="Not decided here (continuous intermediates, see DESIGN): weights of the Gaussian loop-hafnian chain, the torontonian chain and the inverse-CDF homodyne sampler in Fock space; samplers for partially distinguishable photons (uniform overlap, Gram matrix, with loss and post-selection) are compared with the law of PqDistinguish.tla.",
   technique="TLA+ probabilistic state machine of the sampler, law = Born proved by TLC per instance; exact implementation law by exhaustive enumeration of RNG decisions compared with the TLC-exported law",
   engine="PqSampler")
CLAIMED["C09"] = dict(
   category="model_checking", design_ref="§3 C09",
   text="Every behaviour TLC exports from the exact reference semantics (PqOptics: passive and Kerr-type gates on number states; PqGaussian: lattice Gaussian gates) is executed under every connector the simulator accepts (NumPy, TensorFlow, JAX on PureFock; NumPy, JAX on Gaussian, Passive and both fermionic simulators via PqFermi), eagerly and compiled with tf.function / jax.jit with the gate parameters as traced arguments, and each result (state vector with phases, Fock probabilities, mean and covariance, detection probabilities) is compared with the exact state of the specification at 1e-8; connectors that all equal the exact state equal each other. Active gates in Fock space (no exact lattice representation; they go through each connector's polar/logm/Takagi shims) are compared across connectors against the NumPy result in the regime where truncation is below 1e-8.",
   note="Programs that cannot be traced by tf.function/jax.jit (they raise at trace time, e.g. MachZehnder under tf.function) are counted, not judged;",
   technique="behaviours of the exact TLA+ reference semantics replayed under every connector (eager and compiled) and compared with the exact state",
   engine="PqOptics, PqGaussian, PqFermi")
CLAIMED["C10"] = dict(
   category="model_checking", design_ref="§3 C10",
   text="PqOpticsGrad.tla is the exact tangent semantics of PqOptics: the derivative of the state with respect to one parameter (Beamsplitter theta / phi, Phaseshifter phi) of one gate of the program, by the Leibniz rule on the substitution a_c^dagger -> L_c with the derivative of the documented one-particle matrix (a lattice matrix with the same denominator); Kerr-type and parameter-free gates are differentiated through. TLC checks Re<psi|dpsi> = 0 on every behaviour (d=2,3, n<=3, depth 2-3) and exports state and tangent. The exact Jacobian of all Fock probabilities, 2 Re(conj(a_v) da_v), is compared at 1e-7 with tf.GradientTape (eager and inside tf.function), with jax.jacfwd / jax.jacrev (eager and under jax.jit) and, as the property's own oracle, with central finite differences of the NumPy simulation. PqGaussianGrad.tla: exact tangent of (mean, covariance, mean photon numbers) of lattice Gaussian programs with respect to one parameter (Squeezing r/phi, Squeezing2 r/phi, Displacement r/phi, QuadraticPhase s, ControlledX/Z s, Beamsplitter, Phaseshifter), TLC-checked (derivative of the commutation relations vanishes, tangent Hermitian), against jax.jacfwd / jacrev through GaussianSimulator (1e-8) and finite differences of NumPy. The JAX permanent: value and holomorphic gradient against the definition (d perm / dA_ij = rows_i cols_j perm of the minor) for Gaussian-integer matrices with multiplicities.",
   note="Active gates in Fock space (hand-written displacement / squeezing rules, gate-application rule; d = 2, 3) have no exact lattice tangent: for TLC-generated PqGaussian programs on number-state inputs the oracle is the property's own, central finite differences of the NumPy simulation (2e-6). A derivative that cannot be obtained at all (tf.function cannot trace the gate, JAX has no rule for schur) is counted, not judged. Batched states are not covered.",
   technique="exact tangent semantics in TLA+ (TLC-checked, exported) compared with TensorFlow / JAX automatic derivatives, eager and compiled",
   engine="PqOpticsGrad, PqGaussianGrad")
CLAIMED["C15"] = dict(
   category="exploration", design_ref="§3 C15",
   text="The specification decides the input side and the exact structural facts, not floating-point factorisations: PqDecomp.tla (on PqGaussian) carries the accumulated ladder matrix Stot of lattice programs; TLC proves on every reachable state (d=1,2,3, depth 2-3, every ordered mode tuple) that Stot is symplectic, that Stot Vac Stot^dagger is the state, that the anomalous block <a_i a_j> is symmetric, that passive programs have a unitary passive block and that unitary programs give pure states. Each reachable state is an exact, structured and usually degenerate input (equal squeezings, permutation / block-diagonal / identity / one-mode unitaries, pure covariances with symplectic spectrum hbar of full multiplicity, thermal ones); the implementation's clements / inverse_clements / instruction list / weight round trip, takagi, williamson, euler and graph embedding are run on them and the defining relations are evaluated on their outputs at 1e-7 (plus permutation, diagonal and block-diagonal unitaries up to d=5, their symmetrisations as Takagi inputs with repeated and zero singular values, and every graph on <= 4 vertices).",
   note="Model-based exploration, not a proof: the reconstruction identities are numeric predicates on the outputs; inputs are on the lattice (exact) and up to dimension 6 (real form).",
   technique="TLC-enumerated exact structured inputs with TLC-proved structure (symplectic, pure, symmetric); defining relations of each decomposition evaluated on the implementation's output",
   engine="PqDecomp")
CLAIMED["C05"] = dict(
   category="model_checking", design_ref="§3 C05",
   text="PqOptics.tla models loss as the unitary dilation (beamsplitter onto a fresh ancilla) and post-selection as projection; TLC checks NormIsOne, NormAtMostOne, ChainRule and SeqEqJoint on every reachable spec state and exports exact states. Replay on PassiveSimulator: get_particle_detection_probability, fock_probabilities_map, marginals on every mode subset, state_vector and norm against the marginal of the exact dilation (1e-9), and the dilation program itself on PureFockSimulator amplitude by amplitude.",
   note="Partial distinguishability by definition in PqDistinguish.tla (internal components as extra modes; uniform overlaps 16/25, 9/25, 1/2 and Gram matrices of Gaussian-integer vectors, with loss and post-selection); lattice transmissivities 3/5, 4/5, 1/sqrt2.",
   technique="exact TLA+ dilation semantics + TLC; behaviours replayed on PassiveSimulator and on the PureFock dilation",
   engine="PqOptics")
CLAIMED["C08"] = dict(
   category="model_checking", design_ref="§3 C08",
   text="Spec side: NormIsOne / NormAtMostOne hold in every reachable PqOptics state (TLC). The exact norm of every exported state (gates, Kerr, loss dilation, post-selection) is compared after every step with PureFock norm, Fock trace and Passive norm; monitors after every instruction of Gaussian programs at hbar 1/2, 2, 8 (real symmetric covariance, uncertainty relation, purity = 1/sqrt(det(sigma/hbar)) in (0,1], is_pure), Fock density matrices (Hermitian, positive, trace <= 1), fermionic correlation spectra, probability ranges, and on every state returned by every simulation step of adaptive programs on all simulators (post-measurement states included).",
   note="Gaussian exact invariants come from monitors, not yet from a PqGaussian spec.",
   technique="TLC invariants on the exact optics spec + per-step physicality monitors bound to exact norms",
   engine="PqOptics")
CLAIMED["C16"] = dict(
   category="model_checking", design_ref="§3 C16",
   text="TLC proves on PqOptics (exact arithmetic) RelabelEquivariant -- a product construction evolving the program and its Perm-relabelled version side by side -- for permutations of 3 modes, and CommuteDisjoint for every disjoint pair of catalogue gates; C01 compares all simulators with the spec on every ordered mode tuple, which transfers the property; additionally each exported sequence is run with its relabelled version and with adjacent disjoint gates exchanged on PureFock, Fock and Passive simulators.",
   note="Gaussian and fermionic simulators are not yet covered by the direct replay.",
   technique="TLC theorems (product construction) on the exact spec + direct relabelling / commutation replay",
   engine="PqOptics")
CLAIMED["C07"] = dict(
   category="model_checking", design_ref="§3 C07",
   text="PqGaussian.tla defines every linear gate by its documented ladder-operator blocks (P, A) on the exact lattice (fractions over Z[sqrt2, i]) and evolves (mu, Gam) by the congruence S Gam S^dagger. TLC checks by ASSUME that every catalogue gate on every ordered mode tuple satisfies S K S^dagger = K (passive gates unitary) and the documented identities (Fourier = PS(pi/2), 50:50 beamsplitter, three Mach-Zehnder instances, the two-mode-squeezing decomposition for four phases), and Hermiticity + commutation relations on every reachable state. Replay: the code's _get_passive_block / _get_active_block equal the spec blocks for every gate and hbar in {1/2, 2, 8}; after every gate of every sequence (depth 2-3, d = 2, 3) _m, _C, _G and the xxpp / xpxp mean and covariance equal the exact congruence (displacement shift sqrt(2 hbar) alpha included).",
   note="'For all real parameters' is established on the lattice only: the tlapm certificate identities of DESIGN 2 are not built.",
   technique="exact TLA+ Gaussian semantics (documented blocks) + TLC ASSUME theorems; behaviours replayed on GaussianSimulator for three hbar",
   engine="PqGaussian")
CLAIMED["C14"] = dict(
   category="model_checking", design_ref="§3 C14",
   text="PqGaussian.tla derives the quadrature representations from exact ladder moments with an explicit hbar and exports them for hbar in {1/2, 2, 8}. Replay on lattice states: complex / xxpp / xpxp representations and per-mode mean photon numbers against exact values; setter o getter round trips through both orderings; reduced() on every ordered mode subset and rotated() on lattice angles against the spec's sub-blocks and phase rules; Fock probabilities, purity, fidelity, threshold probabilities, density matrix and mean photon number equal across hbar; photon-number and threshold samples drawn with the same seed are identical for every hbar (deterministic, pure and mixed lattice states).",
   note="Mixed states enter through the attenuator channel; dimensionless observables other than the mean photon number are compared across hbar, not against closed forms.",
   technique="exact TLA+ representation maps with explicit hbar + TLC; replay of getters / setters / reduced / rotated on GaussianState",
   engine="PqGaussian")
CLAIMED["C18"] = dict(
   category="model_checking", design_ref="§3 C18",
   text="PqProgram.tla: (nest) registration maps modes through the enclosing register exactly once -- TLC checks MappedExactlyOnce (composition law) and InnerReusable for all inner programs x register chains up to depth 3; (trip) export/load pairs specified as the identity on (class, modes, parameters); (prep) Den of +, scalar *, / over number states, with AddCommutes / AddAssociates / ScalarDistributes checked on every enumerated tree (exhaustive on a 2-leaf alphabet up to 4 leaves, simulation on 4 leaves x 4 Gaussian-rational scalars). Replay: real `with Program(): Q(..) | inner` nestings (inner snapshotted, registered twice); Blackbird text, executed as_code output (program and simulator compared, incl. non-default Configs), from_dict and copy on programs over the 15 exportable gate classes with parameter values {0, +-1, 2.0, 0.5, +-1e-20, 1e20, pi/4, int, numpy float}; every exported tree built with the real operators and its effective amplitude map compared with Den.",
   note="Matrix parameters and Blackbird files on disk are not exercised; shared leaf objects are out of scope (documented in-place __mul__).",
   technique="TLA+ model of registration / round trips / preparation algebra + TLC; behaviours replayed through the real construction APIs",
   engine="PqProgram")
CLAIMED["C17"] = dict(
   category="model_checking", design_ref="§3 C17",
   text="PqFermi.tla is an exact fermionic Fock-space semantics on d <= 4 modes over fractions of Z[sqrt2, i]: Jordan-Wigner signs, passive gates by substitution and re-ordering (determinants are derived, not assumed), the documented two-mode squeezer, Ising-XX and controlled-phase action on consecutive modes, and the Majorana covariance matrix computed from the state by its definition. TLC checks NormIsOne, ParityConserved, NumberConserved (passive), SigmaRealAntisymmetric on every reachable state and exports the state and covariance after every gate (depth 2-3, all lattice angles). Replay on both fermionic simulators: Fock state vector, covariance matrix of both, detection probability of all 2^d occupations, probability map sums and 0/1 occupations.",
   note="Quadratic Hamiltonians (GaussianHamiltonian) are not in the catalogue; gates on consecutive modes only.",
   technique="exact TLA+ exterior-algebra semantics + TLC invariants; behaviours replayed on both fermionic simulators",
   engine="PqFermi")
CLAIMED["C19"] = dict(
   category="model_checking", design_ref="§3 C19",
   text="PqQubit.tla: exact semantics (fractions over Z[sqrt2, i]) of circuits over h, x, y, z, rx, ry, rz, u, p (lattice angles), cz, cx, measurement as nondeterministic projection and classically conditioned gates; TLC enumerates every circuit with <= 2 (thorough 3) gates on 1-2 (3) qubits with an optional mid-circuit measurement and EVERY outcome history, checks norm / weight invariants and exports exact history weights. Replay: each circuit is built in Qiskit (classical bits assigned by position and by qubit index), translated by dual_rail_encode_from_qiskit and executed on PureFockSimulator with shots=None; branch weights post-selected on the dual-rail code space and renormalised must equal the exact distribution (1e-9 without cz/cx, 2e-3 with the fixed KLM angles).",
   note="The heralded CZ is specified only by its action on the code space; instruction-list equality with a gadget table is not checked (semantics is).",
   technique="exact TLA+ qubit semantics with all outcome histories + TLC; circuits replayed through the Qiskit translation on PureFockSimulator",
   engine="PqQubit")
NOT_APPLICABLE_REASON = {}
def main():
    checks = []
    for pid, c in CLAIMED.items():
        checks.append({
            "property_id": pid,
            "quick_cmd": f"./check {pid} --tier quick",
            "thorough_cmd": f"./check {pid} --tier thorough",
            "evidence_file": f"/verif/evidence/{pid}.json",
            "replay_cmd_template": "./check replay {path}",
            "engine": c.get("engine", ""),
            "level_claimed": {"category": c["category"], "text": c["text"], "design_ref": c["design_ref"]},
            "level_note": c["note"],
            "technique": c["technique"],
        })
    na = [{"property_id": p, "reason": NOT_APPLICABLE_REASON.get(p, "check not built yet in this round (see DESIGN.md §5 plan); not claimed")}
          for p in ALL if p not in CLAIMED]
    m = {
        "version": 1,
        "setup_cmd": "./setup.sh",
        "hooks": {
            "guard": "PIQUASSO_VERIF",
            "enable": "no source hooks: the recorder patches attributes from the harness at run time (PIQUASSO_VERIF=1 is exported by ./check for future guarded hooks)",
            "baseline_off_cmd": "cd /repo && /venv/bin/python -m pytest -ra -q -p no:cacheprovider --timeout=900 --continue-on-collection-errors",
            "source_commits": [],
            "add_only": True,
        },
        "engines": json.loads((V / "tools" / "engines.json").read_text()) if (V / "tools" / "engines.json").exists() else [],
        "checks": checks,
        "notes": "All checks: TLA+ spec (spec/*.tla) checked with TLC, then bound to /repo by replaying TLC-generated behaviours into the real code and/or validating recorded traces. ./check <id> --tier quick|thorough; exit 2 = machinery failure.",
        "not_applicable": na,
    }
    (V / "MANIFEST.json").write_text(json.dumps(m, indent=1) + "\n")
if __name__ == "__main__":
    main()
