#!/usr/bin/env python3
"""Collect confirmed seeded mutants into /verif/seeded/<id>_m<k>/ (patch.diff, demo.py, meta.json).

A mutant is kept only if /tmp/confirm/<id>_m<k>.result (written by tools/confirm_mutant2.sh in a scratch worktree) shows:
the demo exits 0 on the clean tree and non-zero with the patch, and no test of the stable baseline breaks with the patch
(tests that fail under xdist are re-run serially).  The detection result of our own check (tools/try_mutant.sh) is
recorded when its log is present."""
import glob, json, os, re, shutil, subprocess, sys

VERIF = "/verif"
kept, dropped = [], []
for res in sorted(glob.glob("/tmp/confirm/*.result")):
    name = os.path.basename(res)[:-7]
    pid, k = name.split("_m")
    txt = open(res).read()
    if "done" not in txt:
        continue
    kv = dict(re.findall(r"^(\w+)=(.*)$", txt, re.M))
    ok = kv.get("demo_clean_rc") == "0" and kv.get("demo_mut_rc") not in (None, "0") and "apply_failed" not in kv
    broken = int(kv.get("stable_tests_broken", "999"))
    serial_ok = kv.get("serial_rerun_rc") == "0"
    tests_ok = broken == 0 or serial_ok
    chi = kv.get("chi_square_rc")
    if chi is not None and not (chi == "0" or chi.startswith("not-run")):
        tests_ok = False
    if not (ok and tests_ok):
        dropped.append((name, kv))
        continue
    src = f"/tmp/mut_{pid}"
    dst = f"{VERIF}/seeded/{name}"
    os.makedirs(dst, exist_ok=True)
    shutil.copy(f"{src}/m{k}.patch.diff", f"{dst}/patch.diff")
    shutil.copy(f"{src}/m{k}.demo.py", f"{dst}/demo.py")
    try:
        meta = json.load(open(f"{src}/m{k}.meta.json"))
    except Exception:
        meta = {}
    summary_line = [l for l in txt.splitlines() if " passed" in l]
    det = None
    logs = sorted(glob.glob(f"/tmp/mutrun_mut_{pid}_m{k}_*.log"), key=os.path.getmtime)
    if logs:
        lg = open(logs[-1]).read()
        viol = [l for l in lg.splitlines() if l.startswith("VIOLATION")]
        det = {"check": os.path.basename(logs[-1]).split("_")[-1][:-4], "tier": "quick", "violations": len(viol), "first": viol[0][:300] if viol else None}
    applies = subprocess.run(["git", "-C", "/repo", "apply", "--check", f"{dst}/patch.diff"], capture_output=True).returncode == 0
    out = {
        "property": pid,
        "breaks": meta.get("summary"),
        "files": meta.get("files"),
        "needs_to_manifest": meta.get("needs_to_manifest"),
        "author_tests_run": meta.get("tests_run"),
        "confirmed_by_us": {
            "how": "tools/confirm_mutant3.sh (earlier ones: confirm_mutant2.sh) in a scratch worktree of /repo HEAD: demo on the clean tree, demo with the patch, the whole test-suite with the patch "
                   "(pytest -n 6, junit compared with BASELINE.json stable_pass; tests broken under xdist re-run serially)",
            "demo_clean_rc": kv.get("demo_clean_rc"), "demo_with_patch_rc": kv.get("demo_mut_rc"),
            "suite_summary": summary_line[0] if summary_line else None,
            "stable_tests_broken_under_xdist": broken, "serial_rerun_rc": kv.get("serial_rerun_rc"),
            "stable_seen": kv.get("stable_seen"),
            "gaussian_chi_square_sampling_tests": kv.get("chi_square_rc", "part of the full run"),
        },
        "applies_to_current_repo_head": applies,
        "detected_by": det,
    }
    json.dump(out, open(f"{dst}/meta.json", "w"), indent=1)
    kept.append(name)
print("kept", kept)
print("dropped", [(n, {k: v for k, v in kv.items() if k in ('demo_clean_rc', 'demo_mut_rc', 'stable_tests_broken', 'serial_rerun_rc', 'apply_failed')}) for n, kv in dropped])
