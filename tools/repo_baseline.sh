#!/bin/bash
# runs the repository's test suite on /repo as it is (guard off) and compares with the stable baseline
out=${1:-/tmp/baseline_run}
cd /repo && env -u PIQUASSO_VERIF /venv/bin/python -m pytest -q -p no:cacheprovider --timeout=900 --continue-on-collection-errors -n ${2:-5} --junitxml=$out.junit.xml > $out.log 2>&1
python3 - "$out.junit.xml" > $out.result <<'PY'
import sys, json, xml.etree.ElementTree as ET
b=json.load(open('/root/.vp/BASELINE.json')); stable=set(b['stable_pass'])
bad=[]; seen=set()
for tc in ET.parse(sys.argv[1]).getroot().iter('testcase'):
    tid=f"{tc.get('classname')}::{tc.get('name')}"
    seen.add(tid)
    if any(c.tag in ('failure','error') for c in tc) and tid in stable:
        bad.append(tid)
print("stable_tests_broken=%d" % len(bad)); print("stable_seen=%d of %d" % (len(seen & stable), len(stable)))
for t in bad[:20]: print("BROKEN", t)
PY
cat $out.result
