#!/usr/bin/env python3
"""python3-vt tools/validate_artifacts.py  -- MANIFEST.json and evidence/*.json against the schemas in /root/.vp"""
import glob, json, sys
import jsonschema
m = json.load(open('/verif/MANIFEST.json'))
jsonschema.validate(m, json.load(open('/root/.vp/MANIFEST.schema.json')))
es = json.load(open('/root/.vp/EVIDENCE.schema.json'))
bad = 0
claimed = {c['property_id']: c['level_claimed']['category'] for c in m['checks']}
for pid, lv in sorted(claimed.items()):
    f = f'/verif/evidence/{pid}.json'
    try:
        e = json.load(open(f))
        jsonschema.validate(e, es)
        assert e['level'] == lv, f"level {e['level']} != claimed {lv}"
        assert e['coverage'].get('samples'), "no samples"
        assert e.get('violations', 0) == 0, "violations recorded"
        print(pid, 'ok', e['tier'], 'seed', e['seed'], 'evaluations', e['coverage'].get('evaluations'), 'wall', e['wall_s'])
    except Exception as ex:
        bad += 1
        print(pid, 'INVALID', str(ex)[:200])
print('manifest ok;', len(claimed), 'checks;', bad, 'evidence problems')
sys.exit(1 if bad else 0)
