#!/bin/bash
# usage: mkwt.sh <dir>   -- scratch worktree of /repo HEAD with prebuilt native modules linked in
set -e
d="$1"
git -C /repo worktree add --detach "$d" "${2:-HEAD}" >/dev/null 2>&1
sp=/venv/lib/python3.12/site-packages/piquasso
ln -s $sp/_math/permanent.cpython-312-x86_64-linux-gnu.so $sp/_math/torontonian.cpython-312-x86_64-linux-gnu.so $sp/_math/pfaffian.cpython-312-x86_64-linux-gnu.so "$d/piquasso/_math/"
ln -s $sp/jax_extensions/_jax_perm_core.cpython-312-x86_64-linux-gnu.so "$d/piquasso/jax_extensions/"
mkdir -p "$d/.wtshim" && cp /verif/tools/wtshim/sitecustomize.py "$d/.wtshim/"
cat > "$d/py" <<EOS
#!/bin/bash
# python bound to this worktree's piquasso
export PQ_WT="$d" PYTHONPATH="$d/.wtshim\${PYTHONPATH:+:\$PYTHONPATH}"
exec /venv/bin/python "\$@"
EOS
chmod +x "$d/py"
echo "$d"
