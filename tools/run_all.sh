#!/bin/bash
# runs every claimed check (quick tier by default) on /repo and prints a one-line summary per check
tier=${1:-quick}
cd /verif
ids=$(python3 -c "import json;print(' '.join(c['property_id'] for c in json.load(open('MANIFEST.json'))['checks']))")
for id in $ids; do
  s=$(date +%s)
  timeout 3000 ./check $id --tier $tier > /tmp/runall_$id.log 2>&1; rc=$?
  echo "$id rc=$rc $(( $(date +%s) - s ))s viol=$(grep -c '^VIOLATION' /tmp/runall_$id.log) known=$(grep -c '^KNOWN' /tmp/runall_$id.log) :: $(tail -1 /tmp/runall_$id.log | cut -c1-150)"
done
