#!/bin/bash
# usage: agent_prompt.sh C03  -> prints the prompt for a mutant-writing sub-agent (contains nothing from /verif)
id=$1
cat <<EOP
You are helping test a verification effort for the open-source Python library piquasso (photonic quantum computer simulator: Gaussian, Fock (pure/mixed), passive boson-sampling and fermionic simulators, NumPy/TensorFlow/JAX connectors, C++ kernels under src/).

You have your own scratch git worktree of the repository at /tmp/wt_$id (work ONLY there; never touch /repo or /verif, and do not read anything under /verif). Run python for this worktree with /tmp/wt_$id/py (a wrapper around /venv/bin/python that makes \`import piquasso\` resolve to the worktree; e.g. \`cd /tmp/wt_$id && ./py -m pytest tests/api -q -p no:cacheprovider\`). The sandbox has no network. The native .so modules are prebuilt and cannot be rebuilt (pybind11 is absent), so changes to src/*.cpp or piquasso/_math/*.cpp do not affect Python-visible behaviour; a C++ change can only be demonstrated by compiling src/*.cpp yourself with g++ in a small driver (that is acceptable if the property is about the native kernels). Every shell command prints a harmless conda WARNING line first; ignore it.

The semantic property under study:

$(cat /tmp/prop_$id.txt)

Your task: produce TWO independent, realistic changes (mutants) to piquasso's source, each of which BREAKS this property while the code still imports/compiles and the repository's existing test suite still passes. Think of plausible regressions a maintainer could introduce: an off-by-one, a wrong branch for an edge case, a missing restore on an error path, a sign/conjugation slip that only matters for some inputs, a refactor that drops a normalisation in one path, etc. Strongly prefer changes that need something specific to manifest — a multi-step sequence of operations, an unusual input (mode order, bunched input, small cutoff, non-default hbar, complex parameter), a failure at a particular point, or two cooperating sites that each look fine alone — NOT changes that ordinary use would expose at once. The two mutants should touch different mechanisms/files where possible.

For each mutant k in {1,2} deliver in /tmp/mut_$id/:
  - m\$k.patch.diff : \`git diff\` of the worktree for that mutant alone (relative to the pristine HEAD; must apply with \`git apply\` at the repo root). Only library source files (piquasso/ or src/), never tests.
  - m\$k.demo.py : a small standalone program (run as \`/tmp/wt_$id/py m\$k.demo.py\`) that exits 0 on the pristine tree and exits non-zero (assertion failure with a clear message) with the mutant applied — it demonstrates the property violation through the public API.
  - m\$k.meta.json : {"property": "$id", "summary": "...", "files": [...], "needs_to_manifest": "what specific input/sequence/fault is needed", "tests_run": "which pytest commands you ran with the mutant applied and their pass/fail counts"}
Procedure: make mutant 1, run the demo (must fail), run the tests most relevant to the touched files plus tests/api (must pass), save the diff, \`git checkout -- .\` to restore, run the demo again (must pass), then do the same for mutant 2. The full suite takes ~25 minutes; run at least the test directories that cover the touched files (e.g. tests/api, tests/_simulators/<x>, tests/_math, tests/fermionic, tests/instructions) with \`-x -q -p no:cacheprovider\`; if a mutant fails an existing test, refine it until it does not. Leave the worktree clean (git checkout -- .) at the end. Do not use more than 4 CPU cores at a time. Report briefly what each mutant does.
EOP
