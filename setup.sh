#!/bin/bash
# offline setup: nothing to fetch; warm nothing that a check does not rebuild itself.
cd "$(dirname "$0")"
mkdir -p evidence replays
java -version >/dev/null 2>&1 || { echo "java missing"; exit 1; }
/venv/bin/python -c "import piquasso" >/dev/null 2>&1 || { echo "piquasso not importable"; exit 1; }
[ -x native/build.sh ] && native/build.sh || true
exit 0
