#!/bin/bash
# offline setup: build the native shim from /repo/src and warm the numba cache for the current /repo sources
cd "$(dirname "$0")"
mkdir -p evidence replays .work
java -version >/dev/null 2>&1 || { echo "java missing"; exit 1; }
native/build.sh >/dev/null || { echo "native build failed"; exit 1; }
./check warmup >/dev/null 2>&1 || true
exit 0
