SPECIFICATION Spec
CONSTANT TraceFile = "traces.json"
INVARIANT NoEvalUnlessAccepted
INVARIANT DeadNeverEvaluated
INVARIANT Report
