SPECIFICATION Spec
INVARIANT NoEvalUnlessAccepted
INVARIANT DeadNeverEvaluated
INVARIANT Report
