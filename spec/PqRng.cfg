SPECIFICATION Spec
CONSTANTS
  Kinds = {"cfgrng", "pershot"}
  Seed = 100
  OtherSeeds = {7}
  Shots = {1, 3}
  MaxOther = 3
  UnseededSeed = 900
  Export = FALSE
INVARIANT Reproducible
INVARIANT NoDrawUsedTwice
INVARIANT OwnStreamsOnly
