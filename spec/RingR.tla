-------------------------------- MODULE RingR --------------------------------
(* Exact arithmetic in R = Z[sqrt2, i]:  <<a, b, c, d>> = a + b*sqrt2 + i*(c + d*sqrt2).  *)
(* Z[sqrt2] elements are pairs <<p, q>> = p + q*sqrt2.                                     *)
EXTENDS Naturals, Integers, Sequences

RZero == <<0, 0, 0, 0>>
ROne == <<1, 0, 0, 0>>
RI == <<0, 0, 1, 0>>
RInt(n) == <<n, 0, 0, 0>>
RAdd(x, y) == <<x[1] + y[1], x[2] + y[2], x[3] + y[3], x[4] + y[4]>>
RNeg(x) == <<-x[1], -x[2], -x[3], -x[4]>>
RSub(x, y) == RAdd(x, RNeg(y))
(* (p + q s)(p' + q' s) = pp' + 2qq' + (pq' + qp') s *)
SMul(p, q, pp, qq) == <<p * pp + 2 * q * qq, p * qq + q * pp>>
RMul(x, y) ==
  LET rr == SMul(x[1], x[2], y[1], y[2])
      ii == SMul(x[3], x[4], y[3], y[4])
      ri == SMul(x[1], x[2], y[3], y[4])
      ir == SMul(x[3], x[4], y[1], y[2])
  IN <<rr[1] - ii[1], rr[2] - ii[2], ri[1] + ir[1], ri[2] + ir[2]>>
RConj(x) == <<x[1], x[2], -x[3], -x[4]>>
RScale(k, x) == <<k * x[1], k * x[2], k * x[3], k * x[4]>>
RIsZero(x) == x = RZero
(* |x|^2 in Z[sqrt2] *)
RAbs2(x) == LET a == SMul(x[1], x[2], x[1], x[2])  b == SMul(x[3], x[4], x[3], x[4]) IN <<a[1] + b[1], a[2] + b[2]>>
SAdd(u, v) == <<u[1] + v[1], u[2] + v[2]>>
SScale(k, u) == <<k * u[1], k * u[2]>>
SZero == <<0, 0>>
(* sqrt2^e as a ring element *)
RECURSIVE Pow2Half(_)
Pow2Half(e) == IF e = 0 THEN <<1, 0>> ELSE IF e = 1 THEN <<0, 1>> ELSE SScale(2, Pow2Half(e - 2))
RECURSIVE IPow(_, _)
IPow(b, e) == IF e = 0 THEN 1 ELSE b * IPow(b, e - 1)
RECURSIVE RPow(_, _)
RPow(x, e) == IF e = 0 THEN ROne ELSE RMul(x, RPow(x, e - 1))
RECURSIVE Fact(_)
Fact(n) == IF n <= 1 THEN 1 ELSE n * Fact(n - 1)
(* powers of i *)
IPowI(k) == CASE k % 4 = 0 -> ROne [] k % 4 = 1 -> RI [] k % 4 = 2 -> RNeg(ROne) [] k % 4 = 3 -> RNeg(RI)
=============================================================================
