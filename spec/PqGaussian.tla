------------------------------ MODULE PqGaussian ------------------------------
(* C07 / C14.  Exact reference semantics of Gaussian states on the parameter lattice.   *)
(* A state is the pair (mu, Gam): mu_i = <a_i>, and the central second moments          *)
(*      Gam = < xi xi^dagger > - <xi><xi^dagger>,   xi = (a_1..a_d, a_1^dagger..a_d^dagger),      *)
(* a 2d x 2d Hermitian matrix over fractions of Z[sqrt2, i] (vacuum: diag(I, 0)).        *)
(* A linear gate is DEFINED by its documented ladder-operator transformation             *)
(*      xi -> S xi + beta,   S = [[P, A], [conj A, conj P]]  on the addressed modes,      *)
(* so the state evolves by the congruence Gam -> S Gam S^dagger, mu -> P mu + A conj(mu) + alpha. *)
(* Quadrature representations are derived with an explicit hbar.                         *)
EXTENDS RingQ, FiniteSets, TLC, Json

CONSTANTS D,
          Gates,      \* Seq of [name, modes (0-based), P, A (k x k over RingQ), alpha (Seq of k), passive]
          MaxDepth,
          HBars,      \* Seq of <<hbar as fraction num, den, sqrt(2 hbar) num, den>> : lattice values with rational sqrt(2 hbar)
          Export
VARIABLES mu, Gam, depth, hist
vars == <<mu, Gam, depth, hist>>

Vac == [i \in 1..(2 * D) |-> [j \in 1..(2 * D) |-> IF i = j /\ i <= D THEN Q1 ELSE Q0]]
Init == mu = [i \in 1..D |-> Q0] /\ Gam = Vac /\ depth = 0 /\ hist = <<>>

(* 2k x 2k ladder matrix of a gate and its embedding into 2D x 2D *)
SOf(g) == LET k == Len(g.modes) IN
  [i \in 1..(2 * k) |-> [j \in 1..(2 * k) |->
     IF i <= k /\ j <= k THEN g.P[i][j]
     ELSE IF i <= k THEN g.A[i][j - k]
     ELSE IF j <= k THEN QConj(g.A[i - k][j])
     ELSE QConj(g.P[i - k][j - k])]]
IdxOf(g) == LET k == Len(g.modes) IN [t \in 1..(2 * k) |-> IF t <= k THEN g.modes[t] + 1 ELSE D + g.modes[t - k] + 1]
Embed(g) == LET S == SOf(g) ix == IdxOf(g) k2 == 2 * Len(g.modes)
                Pos(i) == IF \E t \in 1..k2 : ix[t] = i THEN CHOOSE t \in 1..k2 : ix[t] = i ELSE 0 IN
  [i \in 1..(2 * D) |-> [j \in 1..(2 * D) |->
     IF Pos(i) # 0 /\ Pos(j) # 0 THEN S[Pos(i)][Pos(j)]
     ELSE IF i = j /\ Pos(i) = 0 THEN Q1 ELSE Q0]]

ApplyGate(g) ==
  LET E == Force(Embed(g))
      k == Len(g.modes)
      newMu == [i \in 1..D |->
                 IF \E t \in 1..k : g.modes[t] + 1 = i
                 THEN LET t == CHOOSE tt \in 1..k : g.modes[tt] + 1 = i
                          RECURSIVE S(_)
                          S(c) == IF c > k THEN g.alpha[t]
                                  ELSE QAdd(QAdd(QMul(g.P[t][c], mu[g.modes[c] + 1]), QMul(g.A[t][c], QConj(mu[g.modes[c] + 1]))), S(c + 1))
                      IN S(1)
                 ELSE mu[i]]
  IN /\ Gam' = Force(MMul(Force(MMul(E, Gam)), Force(MDag(E))))
     /\ mu' = ForceRow(newMu, 1, <<>>)

(* Attenuator(theta, nbar): the mode is mixed with a thermal bath on a beamsplitter, a -> cos(theta) a + sin(theta) b.      *)
(* g.P[1][1] = cos(theta), g.A[1][1] = sin^2(theta), g.alpha[1] = nbar (all fractions).  Not unitary: a Gaussian channel. *)
ApplyAtten(g) ==
  LET k == g.modes[1] + 1  c == g.P[1][1]  s2 == g.A[1][1]  nb == g.alpha[1]
      Scale(i) == IF i = k \/ i = D + k THEN c ELSE Q1 IN
  /\ Gam' = Force([i \in 1..(2 * D) |-> [j \in 1..(2 * D) |->
               QAdd(QMul(QMul(Scale(i), Scale(j)), Gam[i][j]),
                    IF i = k /\ j = k THEN QMul(s2, QAdd(nb, Q1))              \* <b b^dagger> = nbar + 1
                    ELSE IF i = D + k /\ j = D + k THEN QMul(s2, nb)            \* <b^dagger b> = nbar
                    ELSE Q0)]])
  /\ mu' = ForceRow([i \in 1..D |-> IF i = k THEN QMul(c, mu[i]) ELSE mu[i]], 1, <<>>)

IsChannel(g) == "chan" \in DOMAIN g /\ g.chan
Next == /\ depth < MaxDepth
        /\ \E gi \in 1..Len(Gates) : /\ (IF IsChannel(Gates[gi]) THEN ApplyAtten(Gates[gi]) ELSE ApplyGate(Gates[gi]))
                                       /\ depth' = depth + 1 /\ hist' = Append(hist, gi)
Spec == Init /\ [][Next]_vars
------------------------------------------------------------------------------
(* ---- theorems on the specification ---- *)
KMat(n) == [i \in 1..(2 * n) |-> [j \in 1..(2 * n) |-> IF i = j THEN (IF i <= n THEN Q1 ELSE QInt(-1)) ELSE Q0]]
(* every catalogue gate preserves the commutation relations: S K S^dagger = K (symplectic in the ladder basis); *)
(* passive gates (A = 0) are unitary                                                                          *)
GateSymplectic(g) == LET S == Force(SOf(g)) k == Len(g.modes) IN MEq(MMul(MMul(S, KMat(k)), MDag(S)), KMat(k))
GatePassiveUnitary(g) == g.passive => (/\ \A i, j \in 1..Len(g.modes) : QIsZero(g.A[i][j])
                                       /\ MEq(MMul(g.P, MDag(g.P)), MId(Len(g.modes))))
ASSUME \A gi \in 1..Len(Gates) : IsChannel(Gates[gi]) \/ (GateSymplectic(Gates[gi]) /\ GatePassiveUnitary(Gates[gi]))

(* reachable states: Gam Hermitian, canonical commutation relations carried by Gam, G symmetric *)
GamHermitian == MEq(Gam, MDag(Gam))
CCR == /\ \A i, j \in 1..D : QEq(QSub(Gam[i][j], Gam[D + j][D + i]), IF i = j THEN Q1 ELSE Q0)
       /\ \A i, j \in 1..D : QEq(Gam[i][D + j], Gam[j][D + i])
DiagonalNonNegative == \A i \in 1..(2 * D) : QIsReal(Gam[i][i]) /\ SNonNeg(Gam[i][i].n[1], Gam[i][i].n[2])

(* ---- representations (C14) ---- *)
W0 == [i \in 1..(2 * D) |-> [j \in 1..(2 * D) |->
        IF i <= D THEN (IF j = i \/ j = i + D THEN Q1 ELSE Q0)
        ELSE (IF j = i - D THEN QNeg(QI) ELSE IF j = i THEN QI ELSE Q0)]]       \* (x; p) = sqrt(hbar/2) W0 xi
CovCore == Force(MMul(Force(MMul(W0, Gam)), MDag(W0)))                         \* sigma_xxpp = hbar * Re(CovCore)
XXPPCov(h) == [i \in 1..(2 * D) |-> [j \in 1..(2 * D) |-> QMul(QFrac(h[1], h[2]), QRe(CovCore[i][j]))]]
XXPPMean(h) == [i \in 1..(2 * D) |-> QMul(QFrac(h[3], h[4]), IF i <= D THEN QRe(mu[i]) ELSE QIm(mu[i - D]))]
CovCoreIsHermitian == MEq(CovCore, MDag(CovCore))
MeanPhotons == [i \in 1..D |-> QAdd(Gam[D + i][D + i], QMul(QConj(mu[i]), mu[i]))]

ExportState == Export =>
  PrintT(<<"GAUSS", ToJson([hist |-> hist, mu |-> mu, Gam |-> Gam,
                            reps |-> [h \in 1..Len(HBars) |-> [hbar |-> <<HBars[h][1], HBars[h][2]>>, mean |-> XXPPMean(HBars[h]), cov |-> XXPPCov(HBars[h])]],
                            nbar |-> MeanPhotons])>>)
=============================================================================
