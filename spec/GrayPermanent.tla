---------------------------- MODULE GrayPermanent ----------------------------
(* C04 / C11.  Line-by-line state machine of src/permanent.cpp (permanent_cpp)  *)
(* and src/n_aryGrayCodeCounter.hpp over Gaussian integers: the row-splitting   *)
(* pre-step, the partition of the Gray-code range into min(4*nThreads, idxMax)  *)
(* jobs, the counter chain / reflected digits, the 32-bit binomial update and   *)
(* the column-sum products.  One action per loop iteration of the code.         *)
EXTENDS MatrixFunctions, TLC, Json

CONSTANTS Instances,  \* Seq of [A |-> matrix (Seq of rows of <<re, im>>), rows |-> multiplicities, cols |-> multiplicities]
          KSet,       \* values of std::thread::hardware_concurrency() to explore
          IntMax,     \* largest value of the C++ `int` (2^31 - 1; smaller to probe)
          Arith,      \* BOOLEAN: carry the exact column sums (FALSE: only the integer machinery)
          Export

VARIABLES inst, K, phase, A, rows, job, offset, offsetMax, chain, gray, binom, parity, colsum, acc, visited, nvisit,
          overflow,   \* TRUE once an `int` intermediate left the representable range
          lastChange  \* <<digit, prev, value>> of the last counter step (history)
vars == <<inst, K, phase, A, rows, job, offset, offsetMax, chain, gray, binom, parity, colsum, acc, visited, nvisit, overflow, lastChange>>

AIn == Instances[inst].A
RowsIn == Instances[inst].rows
ColsIn == Instances[inst].cols
NCols == Len(ColsIn)
RECURSIVE SumS(_)
SumS(s) == IF s = <<>> THEN 0 ELSE Head(s) + SumS(Tail(s))
RECURSIVE Prod(_)
Prod(s) == IF s = <<>> THEN 1 ELSE Head(s) * Prod(Tail(s))
Abs(a) == IF a < 0 THEN -a ELSE a
MulFits(a, b) == a = 0 \/ b = 0 \/ Abs(a) <= IntMax \div Abs(b)

(* ---- pre-step of permanent_cpp: split one copy of the row with the smallest non-zero multiplicity ---- *)
RECURSIVE MinScan(_, _, _)
MinScan(i, minelem, minidx) ==      \* the loop exactly as written (minelem = 0 means "nothing chosen yet")
  IF i > Len(RowsIn) THEN <<minelem, minidx>>
  ELSE IF minelem = 0 \/ (RowsIn[i] < minelem /\ RowsIn[i] # 0) THEN MinScan(i + 1, RowsIn[i], i)
  ELSE MinScan(i + 1, minelem, minidx)
Scan == MinScan(1, 0, 1)
Split == Len(RowsIn) > 0 /\ Scan[1] # 0
Rows1 == IF Split THEN <<1>> \o [RowsIn EXCEPT ![Scan[2]] = RowsIn[Scan[2]] - 1] ELSE RowsIn
A1 == IF Split THEN <<AIn[Scan[2]]>> \o AIn ELSE AIn

Limits == [i \in 1..(Len(rows) - 1) |-> rows[i + 1] + 1]
IdxMax == Prod(Limits)
KEff == IF K = 0 THEN 1 ELSE K          \* hardware_concurrency() may return 0: treated as 1
Concurrency == IF 4 * KEff < IdxMax THEN 4 * KEff ELSE IdxMax
WorkBatch == IdxMax \div Concurrency
InitOff(j) == j * WorkBatch
OffMax(j) == IF j = Concurrency - 1 THEN IdxMax - 1 ELSE (j + 1) * WorkBatch - 1

(* n_aryGrayCodeCounter::initialize *)
RECURSIVE ChainOf(_, _, _)
ChainOf(off, lims, i) == IF i > Len(lims) THEN <<>>
                         ELSE <<off % lims[i]>> \o ChainOf(off \div lims[i], lims, i + 1)
RECURSIVE GrayFrom(_, _, _, _)
GrayFrom(ch, lims, i, par) ==     \* i runs from Len down to 1; returns the digits i..1 in reverse order
  IF i = 0 THEN <<>>
  ELSE LET code == IF par = 1 THEN lims[i] - 1 - ch[i] ELSE ch[i] IN
       GrayFrom(ch, lims, i - 1, (par + code) % 2) \o <<code>>
GrayOf(ch, lims) == GrayFrom(ch, lims, Len(lims), 0)

(* binomialCoeff<int> of src/utils.hpp with its int intermediates *)
RECURSIVE BinLoop(_, _, _, _, _)
BinLoop(n, k, i, res, ovf) ==
  IF i > k THEN <<res, ovf>>
  ELSE LET t1 == res \div i   f == n - k + i  t2 == res % i IN
       IF ~MulFits(t1, f) \/ ~MulFits(t2, f) THEN <<0, TRUE>>
       ELSE LET v == t1 * f + (t2 * f) \div i IN
            IF v > IntMax THEN <<0, TRUE>> ELSE BinLoop(n, k, i + 1, v, ovf)
BinCoeff(n, k) == IF k < 0 \/ n < 0 \/ k > n THEN <<0, FALSE>>
                  ELSE IF k = 0 \/ k = n THEN <<1, FALSE>>
                  ELSE BinLoop(n, IF k > n - k THEN n - k ELSE k, 1, 1, FALSE)

RECURSIVE CPow(_, _)
CPow(a, k) == IF k = 0 THEN COne ELSE CMul(a, CPow(a, k - 1))
RECURSIVE ColProd(_, _)
ColProd(cs, j) == IF j > NCols THEN COne ELSE CMul(CPow(cs[j], ColsIn[j]), ColProd(cs, j + 1))

Init == /\ inst \in 1..Len(Instances) /\ K \in KSet /\ phase = "prep"
        /\ A = AIn /\ rows = RowsIn /\ job = -1 /\ offset = 0 /\ offsetMax = 0 /\ chain = <<>> /\ gray = <<>>
        /\ binom = 1 /\ parity = 1 /\ colsum = <<>> /\ acc = CZero /\ visited = {} /\ nvisit = 0 /\ overflow = FALSE
        /\ lastChange = <<0, 0, 0>>

(* pre-step and the early returns *)
Prep == /\ phase = "prep"
        /\ A' = A1 /\ rows' = Rows1
        /\ phase' = IF SumS(RowsIn) # SumS(ColsIn) THEN "error"
                    ELSE IF Len(AIn) = 0 \/ NCols = 0 \/ SumS(RowsIn) = 0 THEN "one"
                    ELSE IF Len(A1) = 1 THEN "single"
                    ELSE "jobs"
        /\ UNCHANGED <<inst, K, job, offset, offsetMax, chain, gray, binom, parity, colsum, acc, visited, nvisit, overflow, lastChange>>

RECURSIVE InitBinom(_, _, _, _)
InitBinom(g, i, b, ovf) ==       \* binomial_coeff *= binomialCoeff(rows[i+1], g[i])
  IF i > Len(g) THEN <<b, ovf>>
  ELSE LET c == BinCoeff(rows[i + 1], g[i]) IN
       IF c[2] \/ ~MulFits(b, c[1]) THEN <<0, TRUE>> ELSE InitBinom(g, i + 1, b * c[1], ovf)

InitColsum(g) == [j \in 1..NCols |->
   LET RECURSIVE S(_)
       S(i) == IF i > Len(g) THEN A[1][j] ELSE CAdd(CScale(rows[i + 1] - 2 * g[i], A[i + 1][j]), S(i + 1))
   IN S(1)]

StartJob ==
  /\ phase = "jobs" /\ job + 1 < Concurrency
  /\ LET j == job + 1
         ch == ChainOf(InitOff(j), Limits, 1)
         g == GrayOf(ch, Limits)
         ib == InitBinom(g, 1, 1, FALSE)
         par == IF SumS(g) % 2 = 0 THEN 1 ELSE -1
         cs == IF Arith THEN InitColsum(g) ELSE <<>> IN
     /\ job' = j /\ offset' = InitOff(j) /\ offsetMax' = OffMax(j)
     /\ chain' = ch /\ gray' = g /\ binom' = ib[1] /\ overflow' = (overflow \/ ib[2])
     /\ parity' = par /\ colsum' = cs
     /\ acc' = IF Arith /\ ~ib[2] THEN CAdd(acc, CScale(par * ib[1], ColProd(cs, 1))) ELSE acc
     /\ visited' = visited \cup {g} /\ nvisit' = nvisit + 1
     /\ lastChange' = <<0, 0, 0>>
     /\ phase' = "loop"
  /\ UNCHANGED <<inst, K, A, rows>>

(* counter increment with carry *)
RECURSIVE Incr(_, _, _)
Incr(ch, lims, i) == IF i > Len(ch) THEN ch
                     ELSE IF ch[i] < lims[i] - 1 THEN [ch EXCEPT ![i] = ch[i] + 1]
                     ELSE Incr([ch EXCEPT ![i] = 0], lims, i + 1)
(* highest digit whose reflected value differs (the loop runs from the last digit down and breaks at the first change) *)
ChangedDigit(gOld, gNew) == LET D == { i \in 1..Len(gOld) : gOld[i] # gNew[i] } IN
                            IF D = {} THEN 0 ELSE CHOOSE i \in D : \A k \in D : k <= i

Step ==
  /\ phase = "loop" /\ offset < offsetMax
  /\ LET ch == Incr(chain, Limits, 1)
         gFull == GrayOf(ch, Limits)
         ci == ChangedDigit(gray, gFull)
         g == IF ci = 0 THEN gray ELSE [gray EXCEPT ![ci] = gFull[ci]]     \* only the first differing digit is written
         prev == IF ci = 0 THEN 0 ELSE gray[ci]
         val == IF ci = 0 THEN 0 ELSE gFull[ci]
         rc == IF ci = 0 THEN 1 ELSE ci + 1           \* row_offset = changed_index + 1 (changed_index stays 0 if nothing changed)
         m == rows[rc + 0]
         par == -parity
         fitsB == IF val < prev THEN MulFits(binom, prev) ELSE MulFits(binom, m - prev)
         nb == IF ~fitsB \/ overflow THEN 0
               ELSE IF val < prev THEN (binom * prev) \div (m - val)
               ELSE IF val = 0 THEN 0 ELSE (binom * (m - prev)) \div val
         cs == IF Arith THEN [j \in 1..NCols |-> CAdd(colsum[j], CScale(2 * (prev - val), A[rc][j]))] ELSE colsum IN
     /\ chain' = ch /\ gray' = g /\ parity' = par /\ colsum' = cs
     /\ binom' = nb /\ overflow' = (overflow \/ ~fitsB)
     /\ acc' = IF Arith /\ ~overflow /\ fitsB THEN CAdd(acc, CScale(par * nb, ColProd(cs, 1))) ELSE acc
     /\ visited' = visited \cup {g} /\ nvisit' = nvisit + 1
     /\ lastChange' = <<ci, prev, val>>
     /\ offset' = offset + 1
  /\ UNCHANGED <<inst, K, phase, A, rows, job, offsetMax>>

EndJob == /\ phase = "loop" /\ offset >= offsetMax /\ phase' = "jobs"
          /\ UNCHANGED <<inst, K, A, rows, job, offset, offsetMax, chain, gray, binom, parity, colsum, acc, visited, nvisit, overflow, lastChange>>
Finish == /\ phase = "jobs" /\ job + 1 >= Concurrency /\ phase' = "done"
          /\ UNCHANGED <<inst, K, A, rows, job, offset, offsetMax, chain, gray, binom, parity, colsum, acc, visited, nvisit, overflow, lastChange>>
Next == Prep \/ StartJob \/ Step \/ EndJob \/ Finish
Spec == Init /\ [][Next]_vars
-----------------------------------------------------------------------------
N == SumS(RowsIn)
InLoop == phase = "loop"
(* each step of the counter changes exactly one reflected digit, by exactly one *)
GrayIsReflected == (InLoop /\ lastChange[1] # 0) => Abs(lastChange[3] - lastChange[2]) = 1
EveryStepChangesADigit == (InLoop /\ offset > InitOff(job)) => lastChange[1] # 0
DigitsInRange == InLoop => \A i \in 1..Len(gray) : gray[i] \in 0..(Limits[i] - 1)
(* the incrementally updated binomial coefficient is the product of the binomials of the current digits *)
RECURSIVE BinProd(_, _)
BinProd(g, i) == IF i > Len(g) THEN 1 ELSE BinCoeff(rows[i + 1], g[i])[1] * BinProd(g, i + 1)
BinomIsProduct == (InLoop /\ ~overflow) => binom = BinProd(gray, 1)
ParityIsSum == InLoop => parity = (IF SumS(gray) % 2 = 0 THEN 1 ELSE -1)
(* no digit tuple is visited twice, and at the end every tuple has been visited: whatever the job partition *)
NoRevisit == nvisit = Cardinality(visited)
CoverExactlyOnce == phase = "done" => (Cardinality(visited) = IdxMax /\ nvisit = IdxMax)
(* the `int` binomial arithmetic never leaves its range *)
IntFits == ~overflow
(* the accumulated sum is 2^(N-1) times the permanent defined by the sum over permutations *)
RECURSIVE Pow2(_)
Pow2(k) == IF k = 0 THEN 1 ELSE 2 * Pow2(k - 1)
ResultIsPermanent == (phase = "done" /\ Arith /\ ~overflow) => acc = CScale(Pow2(N - 1), PermDef(AIn, RowsIn, ColsIn))
ExportEnd == (Export /\ phase \in {"done", "one", "single", "error"}) =>
   PrintT(<<"PERM", ToJson([inst |-> inst, K |-> K, phase |-> phase, acc |-> acc, n |-> N, overflow |-> overflow, idxmax |-> (IF phase = "done" THEN IdxMax ELSE 0),
                            perm |-> (IF SumS(RowsIn) = SumS(ColsIn) THEN PermDef(AIn, RowsIn, ColsIn) ELSE CZero)])>>)
ExportJob == (Export /\ phase = "loop" /\ offset = InitOff(job)) =>
   PrintT(<<"JOB", ToJson([inst |-> inst, K |-> K, job |-> job, init |-> InitOff(job), offmax |-> offsetMax, limits |-> Limits, gray |-> gray])>>)
ExportStep == (Export /\ phase = "loop") =>
   PrintT(<<"GRAY", ToJson([inst |-> inst, K |-> K, job |-> job, offset |-> offset, gray |-> gray, ch |-> lastChange, binom |-> binom])>>)
=============================================================================
