SPECIFICATION MCSpec
CONSTANTS
  NoneShots = 0
  Exact = TRUE
  WUnit = 1
  WTol = 0
  DModes = 2
  MaxLen = 3
  MaxShots = 3
  Faults = FALSE
  WithInvalid = FALSE
  Conds = {"none", "last1"}
INVARIANT FrameOnEnd
INVARIANT ShotsConserved
INVARIANT NoneWeightsSumToOne
INVARIANT RejectBeforeEvolve
INVARIANT ActiveIsSubsequence
INVARIANT NeverRefuseValid
PROPERTY OutcomeLenMonotone
