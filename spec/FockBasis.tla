----------------------------- MODULE FockBasis -----------------------------
(* C06.  State machine of piquasso._math.fock.nb_get_fock_space_basis and    *)
(* piquasso._math.combinatorics.partitions: one action per loop iteration.   *)
(* The array the code returns IS the trace of this loop (row written at      *)
(* position pos = state after that iteration), so the exported behaviours    *)
(* are compared row by row with the implementation.                          *)
EXTENDS Combi, TLC, Json

CONSTANTS DMax, CMax,       \* explore all 1 <= d <= DMax, 1 <= c <= CMax
          DeclMax,          \* declarative rank cross-check when Dim(d,c) <= DeclMax
          Export            \* BOOLEAN: print every written row for the conformance replay

VARIABLES d, c,             \* configuration chosen in Init
          n,                \* current sector (particles)
          base,             \* current_row of nb_get_fock_space_basis
          index,            \* write index inside partitions (counts down)
          sep,              \* separators
          rown,             \* sector of the last row written (history)
          row, pos,         \* last row written and its global position (-1: none yet)
          phase             \* "sector" | "loop" | "done"
vars == <<d, c, n, base, index, sep, row, pos, phase, rown>>

Positions == n + d - 1

RowOf(s) == [i \in 1..d |->
              IF i < d THEN s[i] - (IF i = 1 THEN -1 ELSE s[i - 1]) - 1
              ELSE Positions - (IF d = 1 THEN -1 ELSE s[d - 1]) - 1]

Init == /\ d \in 1..DMax /\ c \in 1..CMax
        /\ n = 0 /\ base = 0 /\ index = -1 /\ sep = <<>> /\ row = <<>> /\ pos = -1 /\ rown = -1
        /\ phase = "sector"

(* for n in range(cutoff): enter partitions(boxes=d, particles=n, out=...) *)
StartSector ==
  /\ phase = "sector" /\ n < c
  /\ sep' = [i \in 1..(d - 1) |-> i - 1]
  /\ index' = Comb(Positions, d - 1) - 1
  /\ phase' = "loop"
  /\ UNCHANGED <<d, c, n, base, row, pos, rown>>

(* index of the separator to advance: last i with sep[i] # positions-(boxes-1-i) (0-based) *)
RECURSIVE Movable(_, _)
Movable(s, i) == IF i = 0 THEN 0
                 ELSE IF s[i] = Positions - d + i THEN Movable(s, i - 1) ELSE i

(* one iteration of `while True` : write a row, decrement, advance separators *)
Iterate ==
  /\ phase = "loop"
  /\ row' = RowOf(sep)
  /\ pos' = base + index
  /\ rown' = n
  /\ index' = index - 1
  /\ IF index - 1 < 0
     THEN /\ phase' = "sector" /\ n' = n + 1
          /\ base' = base + Comb(d + n - 1, n)       \* current_row += num_rows
          /\ sep' = sep
     ELSE LET i == Movable(sep, d - 1) IN
          /\ i >= 1        \* otherwise the code would index separators[-1]
          /\ sep' = [j \in 1..(d - 1) |-> IF j < i THEN sep[j] ELSE sep[i] + 1 + (j - i)]
          /\ UNCHANGED <<phase, n, base>>
  /\ UNCHANGED <<d, c>>

Finish == /\ phase = "sector" /\ n = c /\ phase' = "done"
          /\ UNCHANGED <<d, c, n, base, index, sep, row, pos, rown>>

Next == StartSector \/ Iterate \/ Finish
Spec == Init /\ [][Next]_vars

-----------------------------------------------------------------------------
Written == pos >= 0

(* every written row is an occupation vector of the current sector *)
RowInSector == Written => /\ Len(row) = d
                          /\ \A i \in 1..d : row[i] >= 0
                          /\ SumSeq(row) = rown

(* the row written at position pos has rank pos: with injectivity of Rank this is *)
(* "every vector exactly once, ordered by particle number then anti-lex"          *)
RankIsPosition == Written => Rank(row) = pos
SubRankIsLocal == Written => SubRank(row) = pos - (IF rown = n THEN base ELSE base - SecDim(d, rown))
DeclarativeRank == (Written /\ Dim(d, c) <= DeclMax) => DeclRank(row) = pos

(* positions are written in strictly descending order inside a sector, and each sector *)
(* ends exactly at its base: no gaps, no overlap                                       *)
Descending == [][(phase = "loop" /\ phase' = "loop" /\ rown = n) => pos' = pos - 1]_vars
SectorEndsAtBase == [][(phase = "loop" /\ phase' = "sector") => pos' = base]_vars
SectorStartsAtTop == [][(phase = "sector" /\ phase' = "loop") => base + index' = base + SecDim(d, n) - 1]_vars

(* termination: exactly Dim rows *)
TotalIsDim == phase = "done" => base = Dim(d, c)
SectorDimIsCard == (phase = "sector" /\ n < c /\ Dim(d, c) <= DeclMax) => SecDim(d, n) = Cardinality(Occ(d, n))

(* no deadlock other than termination *)
Progress == phase # "done" => ENABLED Next

ExportRow == (Export /\ Written) => PrintT(<<"ROW", ToJson([d |-> d, c |-> c, pos |-> pos, row |-> row])>>)
=============================================================================
