SPECIFICATION Spec
CONSTANTS
  DMax = 4
  CMax = 5
  DeclMax = 130
  Export = FALSE
INVARIANT RowInSector
INVARIANT RankIsPosition
INVARIANT SubRankIsLocal
INVARIANT DeclarativeRank
INVARIANT TotalIsDim
INVARIANT SectorDimIsCard
INVARIANT Progress
INVARIANT ExportRow
PROPERTY Descending
PROPERTY SectorEndsAtBase
PROPERTY SectorStartsAtTop
