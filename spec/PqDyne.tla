-------------------------------- MODULE PqDyne --------------------------------
(* C02 / C03 / C16 (Gaussian part).  General-dyne measurement of an ORDERED tuple of modes of a Gaussian    *)
(* state, on top of PqGaussian, in exact arithmetic.  With sigma, r the xpxp covariance and mean of the       *)
(* reachable state (PqGaussian's XXPPCov / XXPPMean for the chosen hbar), M the measured quadratures in the   *)
(* order the modes are LISTED, A the remaining ones (ascending), sigma_m the detector covariance:             *)
(*      outcome r_m  ~  Normal( r_M , (sigma_MM + hbar sigma_m) / 2 )                                          *)
(*      conditional state:   sigma_A' = sigma_AA - C B^-1 C^T ,   r_A' = r_A + C B^-1 (r_m - r_M),             *)
(*      B = sigma_MM + hbar sigma_m ,  C = sigma_AM.                                                           *)
(* B^-1 is computed by Gauss-Jordan elimination over the field Q(sqrt2, i) (B is positive definite, no        *)
(* pivoting needed).  Checked on every reachable state: B^-1 is an inverse, the conditional covariance is      *)
(* symmetric, and it does not depend on the order in which the measured modes are listed (C16).               *)
EXTENDS PqGaussian

CONSTANTS DyneModes,     \* set of mode sequences (0-based, any order, proper subsets of 0..D-1)
          DetCovs,       \* Seq of [name, m (2 x 2 over RingQ)]  detector covariance per mode (in units of hbar)
          ExportDyne

(* xxpp index (1-based) of quadrature q (0 = x, 1 = p) of mode m (0-based) *)
XP(m, q) == m + 1 + q * D
MIdx(ms) == [t \in 1..(2 * Len(ms)) |-> XP(ms[((t - 1) \div 2) + 1], (t - 1) % 2)]
Rest(ms) == LET keep == SelectSeq([i \in 1..D |-> i - 1], LAMBDA m : \A t \in 1..Len(ms) : ms[t] # m) IN keep
AIdx(ms) == MIdx(Rest(ms))
Sub(M, ri, ci) == [i \in 1..Len(ri) |-> [j \in 1..Len(ci) |-> M[ri[i]][ci[j]]]]

(* Gauss-Jordan inverse of a positive definite matrix over RingQ: the augmented rows are processed one column at a time *)
RowScale(r, q) == [j \in 1..Len(r) |-> QMul(q, r[j])]
RowSub(r, s, q) == [j \in 1..Len(r) |-> QSub(r[j], QMul(q, s[j]))]
RECURSIVE GJ(_, _, _)
GJ(Aug, n, c) == IF c > n THEN Aug
                 ELSE LET piv == RowScale(Aug[c], QInv(Aug[c][c]))
                          nxt == [i \in 1..n |-> IF i = c THEN piv ELSE RowSub(Aug[i], piv, Aug[i][c])]
                      IN GJ(Force(nxt), n, c + 1)
MInv(M) == LET n == Len(M)
               Aug == [i \in 1..n |-> [j \in 1..(2 * n) |-> IF j <= n THEN M[i][j] ELSE IF j - n = i THEN Q1 ELSE Q0]]
               R == GJ(Force(Aug), n, 1)
           IN [i \in 1..n |-> [j \in 1..n |-> R[i][j + n]]]

DetBlock(k, dc, h) == [i \in 1..(2 * k) |-> [j \in 1..(2 * k) |->
                         IF (i - 1) \div 2 = (j - 1) \div 2 THEN QMul(QFrac(h[1], h[2]), dc.m[((i - 1) % 2) + 1][((j - 1) % 2) + 1]) ELSE Q0]]
(* cov = the (forced) xxpp covariance of the state for the chosen hbar; all operators below take it as an argument so that TLC evaluates it once *)
BMat(cov, ms, dc, h) == Force(MAdd(Sub(cov, MIdx(ms), MIdx(ms)), DetBlock(Len(ms), dc, h)))
CMat(cov, ms) == Force(Sub(cov, AIdx(ms), MIdx(ms)))
Gain(cov, ms, dc, h) == LET B == BMat(cov, ms, dc, h) Bi == Force(MInv(B)) C == CMat(cov, ms) IN Force(MMul(C, Bi))            \* C B^-1
CondCovOf(cov, ms, K) == Force(MSub(Sub(cov, AIdx(ms), AIdx(ms)), MMul(K, MTr(CMat(cov, ms)))))

Reverse(s) == [i \in 1..Len(s) |-> s[Len(s) + 1 - i]]
CovOf(h) == Force(XXPPCov(h))
DyneTheorems ==
  \A hi \in 1..Len(HBars) : LET h == HBars[hi] cov == CovOf(h) IN
    \A ms \in DyneModes : \A di \in 1..Len(DetCovs) :
     LET dc == DetCovs[di] B == BMat(cov, ms, dc, h) cc == CondCovOf(cov, ms, Gain(cov, ms, dc, h)) IN
     /\ MEq(MMul(B, Force(MInv(B))), MId(2 * Len(ms)))
     /\ MEq(cc, MTr(cc))
     /\ MEq(cc, CondCovOf(cov, Reverse(ms), Gain(cov, Reverse(ms), dc, h)))       \* listing the measured modes in another order changes nothing
ExportDyneRec == ExportDyne =>
  PrintT(<<"DYNE", ToJson([hist |-> hist,
     cases |-> [hi \in 1..Len(HBars) |-> LET h == HBars[hi] cov == CovOf(h) mean == XXPPMean(h) IN
        [ms \in DyneModes |-> [di \in 1..Len(DetCovs) |->
        LET dc == DetCovs[di] K == Gain(cov, ms, dc, h) IN
        [hbar |-> <<h[1], h[2]>>, det |-> dc.name, B |-> BMat(cov, ms, dc, h), K |-> K, cov |-> CondCovOf(cov, ms, K),
         meanM |-> [t \in 1..(2 * Len(ms)) |-> mean[MIdx(ms)[t]]],
         meanA |-> [t \in 1..(2 * (D - Len(ms))) |-> mean[AIdx(ms)[t]]]]]]]])>>)
DyneCheck == DyneTheorems /\ ExportDyneRec
=============================================================================
