------------------------------ MODULE PqEngine ------------------------------
(* C03 / C12 / C13 (and the engine part of C11, C16).  State machine of       *)
(* piquasso.api.simulator.Simulator.execute_instructions: one action per      *)
(* critical section.  The physics is abstracted: a simulation step on a       *)
(* branch with k shots returns any family of sub-branches (outcome, k_i) with *)
(* distinct outcomes, k_i >= 1, sum k_i = k (finite shots) or any split of    *)
(* the branch weight into positive rationals (shots = None).                  *)
(* The specification states the INTENDED design for failures (C12): whenever  *)
(* execution ends -- normally or by an exception raised at any stage -- the   *)
(* caller's instruction objects are as they were (modes, unresolved params).  *)
EXTENDS Naturals, Integers, Sequences, FiniteSets, TLC

CONSTANTS
  NoneShots,          \* number standing for shots = None  (use 0)
  Exact,              \* BOOLEAN: weights are exact rationals (free model) / fixed-point with tolerance (traces)
  WUnit, WTol         \* fixed-point unit and tolerance for recorded float weights (shots = None)

(* An instruction: [kind, modes, cond, unres, sup, midok, noneok, nmodes]                       *)
(*   kind  \in {"prep","gate","meas"}    modes : Seq(Nat) (<<>> = "all active modes")            *)
(*   cond  \in {"none","last0","last1","never","raise"}  (condition on the outcome tuple)         *)
(*   unres : BOOLEAN  (has outcome-dependent parameters)                                         *)
(*   sup   : BOOLEAN  (simulator has a simulation step for the class)                            *)
(*   midok : BOOLEAN  (measurement class allowed mid-circuit)                                    *)
(*   noneok: BOOLEAN  (measurement class allowed with shots=None)                                *)
(*   nmodes: Nat (NUMBER_OF_MODES, 0 = any)                                                      *)
(*   emits : BOOLEAN (a measurement that appends outcomes; FALSE for post-selection)               *)
(*   normproj: BOOLEAN (a projective measurement: with shots=None every branch state it returns  *)
(*             is the NORMALISED projection, so that branch weights alone carry the probability) *)

VARIABLES
  prog,       \* the program as the user wrote it (frame: never changes during an execution)
  simd,       \* d given to the simulator (0 = not given)
  shots,      \* requested shots (NoneShots for None); may be invalid (<=0 encoded as -1)
  stateOK,    \* "none" | "ok" | "wrongclass" | "wrongd"  -- the initial_state argument
  phase,      \* "idle" | "checked" | "validated" | "running" | "done" | "failed"
  d,          \* number of modes in use
  pc,         \* index of the instruction being executed
  stage,      \* "begin" | "cond" | "resolve" | "validate" | "step" | "unresolve" | "end"
  bidx,       \* branch under treatment
  active,     \* active modes (Seq of Nat)
  branches,   \* Seq of [o : Seq(Nat), k : Nat, wn : Nat, wd : Nat]  (k shots or weight wn/wd)
  newb,       \* new branch list under construction
  stored,     \* modes currently stored in each instruction OBJECT
  resolved,   \* set of instruction indices whose parameters are currently overwritten by resolved values
  exc,        \* "" | exception class
  nsteps      \* number of simulation steps performed (history)

vars == <<prog, simd, shots, stateOK, phase, d, pc, stage, bidx, active, branches, newb, stored, resolved, exc, nsteps>>

-----------------------------------------------------------------------------
Max(S) == CHOOSE x \in S : \A y \in S : y <= x
Range(s) == { s[i] : i \in 1..Len(s) }
IndexOf(s, x) == CHOOSE i \in 1..Len(s) : s[i] = x
RECURSIVE SumK(_)
SumK(bs) == IF bs = <<>> THEN 0 ELSE Head(bs).k + SumK(Tail(bs))
RECURSIVE GCD(_, _)
GCD(a, b) == IF b = 0 THEN a ELSE GCD(b, a % b)
RECURSIVE SumW(_)     \* sum of weights as <<num, den>> (unreduced common denominator = product)
SumW(bs) == IF bs = <<>> THEN <<0, 1>>
            ELSE LET r == SumW(Tail(bs)) h == Head(bs)
                     n == h.wn * r[2] + r[1] * h.wd  dd == h.wd * r[2]  g == GCD(n, dd) IN
                 IF g = 0 THEN <<0, 1>> ELSE <<n \div g, dd \div g>>

UserModes == [i \in 1..Len(prog) |-> prog[i].modes]
IsPiquassoExc(e) == e \in {"InvalidParameter", "InvalidSimulation", "InvalidModes", "InvalidState",
                            "InvalidProgram", "PiquassoException", "InvalidInstruction", "InvalidExpression",
                            "NotImplementedCalculation"}

(* ---- what the up-front validation must find (rules of C13) ---- *)
InferredD == LET M == UNION { Range(prog[i].modes) : i \in 1..Len(prog) } IN
             IF M = {} THEN 0 ELSE Max(M) + 1
DUse == IF simd # 0 THEN simd ELSE InferredD

ShotsValid == shots = NoneShots \/ shots >= 1
FirstUnsupported == { i \in 1..Len(prog) : ~prog[i].sup }
ModeOutOfRange == { i \in 1..Len(prog) : \/ \E m \in Range(prog[i].modes) : m < 0 \/ m >= DUse
                                          \/ Cardinality(Range(prog[i].modes)) # Len(prog[i].modes) }     \* repeated mode
PrepAfterOther == { i \in 1..Len(prog) : prog[i].kind = "prep" /\ \E j \in 1..(i - 1) : prog[j].kind # "prep" }
MidCircuitBad == { i \in 1..Len(prog) : prog[i].kind = "meas" /\ i # Len(prog) /\ ~prog[i].midok }
NoneUnsupported == { i \in 1..Len(prog) : prog[i].kind = "meas" /\ shots = NoneShots /\ ~prog[i].noneok }

-----------------------------------------------------------------------------
Idle == phase = "idle"

(* is_shots_positive_integer / None *)
CheckShots ==
  /\ phase = "idle"
  /\ IF ShotsValid THEN phase' = "checked" /\ exc' = exc
     ELSE phase' = "failed" /\ exc' = "InvalidParameter"
  /\ UNCHANGED <<prog, simd, shots, stateOK, d, pc, stage, bidx, active, branches, newb, stored, resolved, nsteps>>

(* _try_to_infer_d_from_instructions ; _validate_instructions (existence, modes, order) ;         *)
(* measurements that do not support shots=None                                                    *)
ValidateAll ==
  /\ phase = "checked"
  /\ LET e == IF DUse = 0 THEN "InvalidSimulation"
              ELSE IF FirstUnsupported # {} THEN "InvalidSimulation"
              ELSE IF ModeOutOfRange # {} THEN "InvalidModes"
              ELSE IF PrepAfterOther # {} THEN "InvalidSimulation"
              ELSE IF MidCircuitBad # {} THEN "InvalidSimulation"
              ELSE IF NoneUnsupported # {} THEN "InvalidParameter"
              ELSE ""
     IN IF e = "" THEN phase' = "validated" /\ exc' = exc
        ELSE phase' = "failed" /\ exc' = e
  /\ UNCHANGED <<prog, simd, shots, stateOK, d, pc, stage, bidx, active, branches, newb, stored, resolved, nsteps>>

(* up-front validation of the parameters of one resolved instruction (config.validate); nothing has evolved yet *)
UpfrontParam(ok, e) ==
  /\ phase = "validated"
  /\ IF ok THEN UNCHANGED <<phase, exc>> ELSE phase' = "failed" /\ exc' = e
  /\ UNCHANGED <<prog, simd, shots, stateOK, d, pc, stage, bidx, active, branches, newb, stored, resolved, nsteps>>

(* _validate_initial_state ; copy / create the initial state *)
ValidateState ==
  /\ phase = "validated"
  /\ IF stateOK \in {"wrongclass", "wrongd"}
     THEN /\ phase' = "failed" /\ exc' = "InvalidState"
          /\ UNCHANGED <<d, pc, stage, active, branches>>
     ELSE /\ phase' = "running" /\ d' = DUse /\ pc' = 1 /\ stage' = "begin"
          /\ active' = [i \in 1..DUse |-> i - 1]
          /\ branches' = << [o |-> <<>>, k |-> (IF shots = NoneShots THEN 0 ELSE shots), wn |-> WUnit, wd |-> WUnit] >>
          /\ exc' = exc
  /\ UNCHANGED <<prog, simd, shots, stateOK, bidx, newb, stored, resolved, nsteps>>

Cur == prog[pc]

(* intended behaviour on any exception: the caller's objects are restored (try/finally) *)
FailWith(e) ==
  /\ phase' = "failed" /\ exc' = e
  /\ stored' = UserModes /\ resolved' = {}
  /\ UNCHANGED <<prog, simd, shots, stateOK, d, pc, stage, bidx, active, branches, newb, nsteps>>

(* default modes, NUMBER_OF_MODES check by the modes setter, inactive-mode check, remap,          *)
(* then (inside _apply_instruction_to_branches) the shots=None support check                      *)
InstrBegin ==
  /\ phase = "running" /\ stage = "begin" /\ pc <= Len(prog)
  /\ LET um == IF Cur.modes = <<>> THEN active ELSE Cur.modes IN
     IF Cur.modes = <<>> /\ Cur.nmodes # 0 /\ Len(active) # Cur.nmodes THEN FailWith("InvalidProgram")
     ELSE IF \E m \in Range(um) : m \notin Range(active) THEN FailWith("ValueError")
     ELSE /\ stored' = [stored EXCEPT ![pc] = [j \in 1..Len(um) |-> IndexOf(active, um[j]) - 1]]
          /\ stage' = "nonecheck" /\ bidx' = 1 /\ newb' = <<>>
          /\ UNCHANGED <<prog, simd, shots, stateOK, phase, d, pc, active, branches, resolved, exc, nsteps>>
InstrBeginFails == phase = "running" /\ stage = "begin" /\ pc <= Len(prog) /\
   LET um == IF Cur.modes = <<>> THEN active ELSE Cur.modes IN
   (Cur.modes = <<>> /\ Cur.nmodes # 0 /\ Len(active) # Cur.nmodes) \/ (\E m \in Range(um) : m \notin Range(active))

(* first statement group of _apply_instruction_to_branches: measurement with shots=None must be supported *)
NoneCheck ==
  /\ phase = "running" /\ stage = "nonecheck"
  /\ IF Cur.kind = "meas" /\ shots = NoneShots /\ ~Cur.noneok THEN FailWith("InvalidParameter")
     ELSE /\ stage' = "cond"
          /\ UNCHANGED <<prog, simd, shots, stateOK, phase, d, pc, bidx, active, branches, newb, stored, resolved, exc, nsteps>>

CondValue(c, o) ==      \* "T" | "F" | "raise"
  CASE c = "none" -> "T"
    [] c = "never" -> "F"
    [] c = "raise" -> "raise"
    [] c = "last0" -> IF Len(o) = 0 THEN "raise" ELSE IF o[Len(o)] = 0 THEN "T" ELSE "F"
    [] c = "last1" -> IF Len(o) = 0 THEN "raise" ELSE IF o[Len(o)] = 1 THEN "T" ELSE "F"

AllDone == bidx > Len(branches)

CondEval(v) ==       \* v = value of the condition on branches[bidx].o : "T" | "F" | "raise"
  /\ phase = "running" /\ stage = "cond" /\ ~AllDone
  /\ CASE v = "raise" -> FailWith("PiquassoException")
       [] v = "F" -> /\ newb' = Append(newb, branches[bidx]) /\ bidx' = bidx + 1
                     /\ UNCHANGED <<prog, simd, shots, stateOK, phase, d, pc, stage, active, branches, stored, resolved, exc, nsteps>>
       [] v = "T" -> /\ stage' = (IF Cur.unres THEN "resolve" ELSE "validate")
                     /\ UNCHANGED <<prog, simd, shots, stateOK, phase, d, pc, bidx, active, branches, newb, stored, resolved, exc, nsteps>>

Resolve(ok) ==
  /\ phase = "running" /\ stage = "resolve"
  /\ IF ok THEN /\ resolved' = resolved \cup {pc} /\ stage' = "validate"
                /\ UNCHANGED <<prog, simd, shots, stateOK, phase, d, pc, bidx, active, branches, newb, stored, exc, nsteps>>
     ELSE FailWith("InvalidParameter")

ValidateParams(ok, e) ==
  /\ phase = "running" /\ stage = "validate"
  /\ IF ok THEN /\ stage' = "step"
                /\ UNCHANGED <<prog, simd, shots, stateOK, phase, d, pc, bidx, active, branches, newb, stored, resolved, exc, nsteps>>
     ELSE FailWith(e)

(* sub-branches a step may return for a branch with k shots / weight wn/wd *)
Abs(a) == IF a < 0 THEN -a ELSE a
RECURSIVE SumWn(_)
SumWn(bs) == IF bs = <<>> THEN 0 ELSE Head(bs).wn + SumWn(Tail(bs))
SubOK(b, subs, norm) ==
  /\ Len(subs) >= 1
  \* branches never share a state object: a later instruction would otherwise act on it once per branch
  /\ Cardinality({ subs[i].sid : i \in { j \in 1..Len(subs) : subs[j].sid # 0 } }) = Cardinality({ j \in 1..Len(subs) : subs[j].sid # 0 })
  /\ IF Cur.kind = "meas" /\ ~Cur.emits          \* post-selection: a measurement that emits no outcome
     THEN Len(subs) = 1 /\ subs[1].o = <<>> /\ (shots # NoneShots => subs[1].k = b.k)
     ELSE IF Cur.kind = "meas"
     THEN /\ \A i \in 1..Len(subs) : Len(subs[i].o) >= 1
          /\ IF shots = NoneShots
             THEN /\ \A i \in 1..Len(subs) : subs[i].wn >= 0 /\ subs[i].wd >= 1
                  /\ IF Exact THEN LET t == SumW(subs) IN t[1] * norm[2] = norm[1] * t[2]
                     ELSE Abs(SumWn(subs) - norm[1]) <= WTol * (1 + Len(subs))      \* all in units of 1/WUnit
                  /\ Cur.normproj => \A i \in 1..Len(subs) : subs[i].sn = -1 \/ Abs(subs[i].sn - WUnit) <= WTol
                  \* a projective measurement returns a distribution (outcomes distinct); an imperfect detector may return
                  \* several branches (one per actual photon number) for the same detected outcome
                  /\ Cur.normproj => Cardinality({ subs[i].o : i \in 1..Len(subs) }) = Len(subs)
             ELSE /\ \A i \in 1..Len(subs) : subs[i].k >= 1
                  /\ SumK(subs) = b.k
     ELSE /\ Len(subs) = 1 /\ subs[1].o = <<>>
          /\ (shots # NoneShots => subs[1].k = b.k)       \* a gate / preparation returns its branch with frequency 1

MergedOK(b, s, m) ==   \* outcome = previous ++ new; frequency = product
  /\ m.o = b.o \o s.o
  /\ IF Cur.kind = "meas"
     THEN /\ m.k = s.k
          /\ IF shots # NoneShots THEN TRUE
             ELSE IF Exact THEN m.wn * b.wd * s.wd = b.wn * s.wn * m.wd
             ELSE Abs(m.wn * WUnit - b.wn * s.wn) <= WTol * WUnit
     ELSE m.k = b.k /\ m.wn = b.wn /\ m.wd = b.wd

Step(subs, merged, norm, ok, e) ==
  /\ phase = "running" /\ stage = "step"
  /\ IF ok THEN /\ SubOK(branches[bidx], subs, norm)
                /\ Len(merged) = Len(subs)
                /\ \A i \in 1..Len(subs) : MergedOK(branches[bidx], subs[i], merged[i])
                /\ newb' = newb \o merged
                /\ nsteps' = nsteps + 1
                /\ stage' = (IF Cur.unres THEN "unresolve" ELSE "cond")
                /\ bidx' = (IF Cur.unres THEN bidx ELSE bidx + 1)
                /\ UNCHANGED <<prog, simd, shots, stateOK, phase, d, pc, active, branches, stored, resolved, exc>>
     ELSE FailWith(e)

Unresolve ==
  /\ phase = "running" /\ stage = "unresolve"
  /\ resolved' = resolved \ {pc} /\ stage' = "cond" /\ bidx' = bidx + 1
  /\ UNCHANGED <<prog, simd, shots, stateOK, phase, d, pc, active, branches, newb, stored, exc, nsteps>>

(* drop measured modes from the active list; restore the modes of the instruction object *)
InstrEnd ==
  /\ phase = "running" /\ stage = "cond" /\ AllDone
  /\ branches' = newb
  /\ active' = (IF Cur.kind = "meas"
                THEN LET gone == { active[stored[pc][j] + 1] : j \in 1..Len(stored[pc]) } IN
                     SelectSeq(active, LAMBDA m : m \notin gone)
                ELSE active)
  /\ stored' = [stored EXCEPT ![pc] = prog[pc].modes]
  /\ pc' = pc + 1 /\ stage' = "begin" /\ bidx' = 1 /\ newb' = <<>>
  /\ UNCHANGED <<prog, simd, shots, stateOK, phase, d, resolved, exc, nsteps>>

Finish ==
  /\ phase = "running" /\ stage = "begin" /\ pc > Len(prog)
  /\ phase' = "done"
  /\ UNCHANGED <<prog, simd, shots, stateOK, d, pc, stage, bidx, active, branches, newb, stored, resolved, exc, nsteps>>

-----------------------------------------------------------------------------
(* Properties *)
Ended == phase \in {"done", "failed"}

(* C12 *)
FrameOnEnd == Ended => (stored = UserModes /\ resolved = {})
(* C03: finite shots *)
Between == phase = "running" /\ stage = "begin"
ShotsConserved == (Between \/ phase = "done") /\ shots # NoneShots /\ phase # "idle"
                    => /\ SumK(branches) = shots
                       /\ \A i \in 1..Len(branches) : branches[i].k \in 1..shots
NoneWeightsSumToOne == ((Between \/ phase = "done") /\ shots = NoneShots /\ phase # "idle")
                    => (Exact => LET s == SumW(branches) IN s[1] = s[2])
OutcomeLenMonotone == [][(phase = "running" /\ phase' = "running" /\ pc' = pc + 1)
                          => \A i \in 1..Len(branches') : \E j \in 1..Len(branches) :
                                 Len(branches[j].o) <= Len(branches'[i].o)]_vars
(* C13 *)
RejectBeforeEvolve == (phase = "failed" /\ exc # "" /\ (~ShotsValid \/ DUse = 0 \/ FirstUnsupported # {} \/ ModeOutOfRange # {}
                         \/ PrepAfterOther # {} \/ MidCircuitBad # {} \/ NoneUnsupported # {} \/ stateOK \in {"wrongclass", "wrongd"}))
                      => (nsteps = 0 /\ IsPiquassoExc(exc))
ActiveIsSubsequence == phase = "running" => \A i \in 1..Len(active) : active[i] \in 0..(d - 1)
=============================================================================
