----------------------------- MODULE FermiBasis -----------------------------
(* C06, fermionic part.  State machine of piquasso.fermionic._utils:         *)
(* get_fock_space_basis / next_second_quantized / next_first_quantized.      *)
(* One action per call of next_first_quantized (= one row of the basis).     *)
EXTENDS Combi, TLC, Json

CONSTANTS DMax, Export
VARIABLES d, c, fq, pos, phase
vars == <<d, c, fq, pos, phase>>

FDim(dd, cc) == SumSeq([k \in 1..cc |-> Comb(dd, k - 1)])   \* get_cutoff_fock_space_dimension

Init == /\ d \in 1..DMax /\ c \in 1..(d + 1)
        /\ fq = <<>> /\ pos = 0 /\ phase = "loop"

(* next_first_quantized(first_quantized, d): l = len; find the smallest i (from the right) *)
(* with fq[l-i-1] < d-i-1 (0-based)                                                         *)
RECURSIVE FindI(_, _, _)
FindI(s, dd, i) == LET l == Len(s) IN
  IF i >= l THEN -1
  ELSE IF s[l - i] < dd - i - 1 THEN i ELSE FindI(s, dd, i + 1)

NextFQ(s, dd) ==
  LET l == Len(s)  i == FindI(s, dd, 0) IN
  IF i >= 0
  THEN [k \in 1..l |-> IF k < l - i THEN s[k]
                       ELSE IF k = l - i THEN s[k] + 1
                       ELSE s[l - i] + 1 + (k - (l - i))]
  ELSE [k \in 1..(l + 1) |-> k - 1]

Step == /\ phase = "loop"
        /\ IF pos + 1 < FDim(d, c)
           THEN /\ fq' = NextFQ(fq, d) /\ pos' = pos + 1 /\ phase' = phase
           ELSE /\ phase' = "done" /\ UNCHANGED <<fq, pos>>
        /\ UNCHANGED <<d, c>>
Next == Step
Spec == Init /\ [][Next]_vars
-----------------------------------------------------------------------------
StrictlyIncreasing == \A i \in 1..(Len(fq) - 1) : fq[i] < fq[i + 1]
InRange == \A i \in 1..Len(fq) : fq[i] \in 0..(d - 1)
(* exclusion: the occupation vector has only 0/1 entries by construction of ToOcc, and *)
(* strict monotonicity of fq says no mode is used twice                                 *)
ValidSubset == StrictlyIncreasing /\ InRange /\ Len(fq) < c
(* declarative position: number of subsets that come earlier (smaller size, or same     *)
(* size and lexicographically smaller mode list)                                        *)
RankIsPosition == FDeclRank(fq, d) = pos
(* closed form used by the library's index function *)
FormulaSubRank(s, dd) == IF Len(s) = 0 THEN 0
   ELSE Comb(dd, Len(s)) - 1 - SumSeq([i \in 1..Len(s) |-> Comb(dd - s[i] - 1, Len(s) - (i - 1))])
FormulaAgrees == FormulaSubRank(fq, d) = FDeclSubRank(fq, d)
TotalIsDim == phase = "done" => pos + 1 = FDim(d, c)
FullSpaceIsPowerOfTwo == (phase = "done" /\ c = d + 1) => pos + 1 = 2 ^ d
ExportRow == Export => PrintT(<<"FROW", ToJson([d |-> d, c |-> c, pos |-> pos, fq |-> fq, occ |-> ToOcc(fq, d)])>>)
=============================================================================
