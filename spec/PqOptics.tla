------------------------------- MODULE PqOptics -------------------------------
(* C01 / C05 / C08 / C16 / C03 (physics part).  Exact reference semantics of     *)
(* number-conserving photonics on the lattice L: a pure state is a polynomial in  *)
(* the creation operators with coefficients in R = Z[sqrt2, i],                   *)
(*      |psi> = (1 / (sqrt2^e2 * 5^e5)) * SUM_v  c_v * PROD_m (a_m^dagger)^(v_m) |0>,*)
(* so the amplitude of |v> is c_v * sqrt(v!) / den and its probability            *)
(* |c_v|^2 * v! / den^2 (an element of Z[sqrt2] over an integer).                 *)
(* Gates act by substitution a_c^dagger -> SUM_r U[r][c] a_r^dagger with the        *)
(* one-particle matrix U of the DOCUMENTATION (U = M / (sqrt2^g2 * 5^g5), M in R). *)
(* Loss is the unitary dilation: a beamsplitter onto a fresh ancilla mode.        *)
(* Measurement: nondeterministic outcome, exact weight, projected state.          *)
EXTENDS RingR, FiniteSets, FiniteSetsExt, TLC, Json

CONSTANTS D,            \* number of (system) modes
          Inputs,       \* set of input occupation vectors
          Gates,        \* Seq of gate records [name, modes (0-based Seq), M (k x k matrix over R), g2, g5, diag (BOOLEAN), kind, p (parameters for the replay)]
          MaxDepth,
          Losses,       \* Seq of loss records (a 2x2 real beamsplitter between the mode and a fresh ancilla)
          MeasSets,     \* set of label sequences that may be measured
          Perm,         \* C16: a permutation of the mode labels as a Seq (image of label m is Perm[m + 1]); <<>> = not used
          CommuteDepth, \* C16: states of depth < CommuteDepth are checked for commutation of disjoint gates (0 = off)
          Measure,      \* BOOLEAN: allow (partial) particle-number measurements
          Export

VARIABLES poly,         \* [vec -> R]   (vec = Seq of Nat of length nmodes)
          e2, e5,       \* global denominator exponents (sqrt2, 5)
          nmodes,       \* current number of modes incl. loss ancillas
          live,         \* Seq of original mode labels still unmeasured (system modes)
          depth,
          hist,         \* applied steps (for the replay)
          poly2,        \* C16: state of the RELABELLED program (same gates on Perm-relabelled modes, Perm-relabelled input)
          nfn, nfd      \* rational normalisation: the (unnormalised, after projections) state is poly / (den * sqrt(nfn / nfd));
                        \* nfn = v! of the input number state, nfd collects o! of the measured / post-selected outcomes
vars == <<poly, poly2, e2, e5, nmodes, live, depth, hist, nfn, nfd>>

RECURSIVE SumSeq(_)
SumSeq(s) == IF s = <<>> THEN 0 ELSE Head(s) + SumSeq(Tail(s))
RECURSIVE VFact(_)
VFact(v) == IF v = <<>> THEN 1 ELSE Fact(Head(v)) * VFact(Tail(v))

(* sum of a function over a finite set, in R *)
RSum(S, f(_)) == FoldSet(LAMBDA x, acc : RAdd(f(x), acc), RZero, S)
SSum(S, f(_)) == FoldSet(LAMBDA x, acc : SAdd(f(x), acc), SZero, S)

Clean(p) == [v \in { u \in DOMAIN p : ~RIsZero(p[u]) } |-> p[v]]

(* ---- polynomial in the k target variables only: multiply by the linear form SUM_r M[r][c] x_r ---- *)
AddAt(t, r) == [t EXCEPT ![r] = t[r] + 1]
SubAt(t, r) == [t EXCEPT ![r] = t[r] - 1]
MulLin(P, M, c, k) ==
  LET Dm == { AddAt(t, r) : t \in DOMAIN P, r \in { rr \in 1..k : ~RIsZero(M[rr][c]) } } IN
  [t2 \in Dm |-> RSum({ r \in 1..k : t2[r] > 0 /\ SubAt(t2, r) \in DOMAIN P /\ ~RIsZero(M[r][c]) },
                       LAMBDA r : RMul(M[r][c], P[SubAt(t2, r)]))]
RECURSIVE MulLinPow(_, _, _, _, _)
MulLinPow(P, M, c, k, e) == IF e = 0 THEN P ELSE MulLinPow(MulLin(P, M, c, k), M, c, k, e - 1)
(* image of the monomial PROD_c x_c^(t[c]) under the substitution: PROD_c (SUM_r M[r][c] x_r)^(t[c]) *)
RECURSIVE SubstMono(_, _, _, _, _)
SubstMono(P, M, t, k, c) == IF c > k THEN P ELSE SubstMono(MulLinPow(P, M, c, k, t[c]), M, t, k, c + 1)
ZeroT(k) == [i \in 1..k |-> 0]
ImageOf(M, t, k) == SubstMono([z \in {ZeroT(k)} |-> ROne], M, t, k, 1)

(* positions (1-based, in the current vectors) of the gate's modes *)
PosOf(label) == CHOOSE i \in 1..Len(live) : live[i] = label
RestrictTo(v, ps) == [i \in 1..Len(ps) |-> v[ps[i]]]
Replace(v, ps, t) == [m \in 1..Len(v) |-> IF \E i \in 1..Len(ps) : ps[i] = m THEN t[CHOOSE i \in 1..Len(ps) : ps[i] = m] ELSE v[m]]

(* apply the k x k matrix M on positions ps to the whole polynomial *)
ScaleOf(g, e) == RMul(RPow(<<0, 1, 0, 0>>, g.g2 * e), RInt(IPow(5, g.g5 * e)))
ApplyLinear(p, g, ps) ==
  LET k == Len(ps)
      M == g.M
      n == IF DOMAIN p = {} THEN 0 ELSE SumSeq(CHOOSE v \in DOMAIN p : TRUE)
      Contrib(v) == ImageOf(M, RestrictTo(v, ps), k)
      Dn == UNION { { Replace(v, ps, t2) : t2 \in DOMAIN Contrib(v) } : v \in DOMAIN p }
  IN Clean([v2 \in Dn |->
       RSum({ v \in DOMAIN p : /\ \A m \in 1..Len(v) : (\A i \in 1..k : ps[i] # m) => v[m] = v2[m]
                               /\ RestrictTo(v2, ps) \in DOMAIN Contrib(v) },
            \* untouched photons carry the factor s^(n - k_v) so that the common denominator is s^n
            LAMBDA v : RMul(ScaleOf(g, n - SumSeq(RestrictTo(v, ps))), RMul(p[v], Contrib(v)[RestrictTo(v2, ps)])))])

(* number-diagonal gates (Kerr family, lattice angles): coefficient multiplied by i^(phase(v)) *)
ApplyDiag(p, g, ps) ==
  [v \in DOMAIN p |->
     LET n1 == v[ps[1]]
         n2 == IF Len(ps) > 1 THEN v[ps[2]] ELSE 0
         k == CASE g.kind = "kerr" -> g.q * n1 * n1          \* exp(i xi n^2), xi = q*pi/2
               [] g.kind = "crosskerr" -> g.q * n1 * n2      \* exp(i xi n_i n_j)
     IN RMul(IPowI(k), p[v])]

Total(p) == IF DOMAIN p = {} THEN 0 ELSE SumSeq(CHOOSE v \in DOMAIN p : TRUE)

UsePerm == Perm # <<>>
PermVec(v) == [m \in 1..Len(v) |-> v[CHOOSE k \in 1..Len(v) : Perm[k] = m - 1]]     \* (pi.v)[pi(k)] = v[k]
Init == /\ \E inp \in Inputs : /\ poly = [v \in {inp} |-> ROne] /\ nfn = VFact(inp) /\ nfd = 1 /\ hist = <<[input |-> inp]>>
                                /\ poly2 = IF UsePerm THEN [v \in {PermVec(inp)} |-> ROne] ELSE <<>>
        /\ e2 = 0 /\ e5 = 0 /\ nmodes = D /\ live = [i \in 1..D |-> i - 1] /\ depth = 0

Applicable(g) == \A i \in 1..Len(g.modes) : \E j \in 1..Len(live) : live[j] = g.modes[i]

Gate(gi) ==
  LET g == Gates[gi] ps == [i \in 1..Len(g.modes) |-> PosOf(g.modes[i])] n == Total(poly) IN
  /\ depth < MaxDepth /\ Applicable(g)
  /\ e2 + g.g2 * n <= 12 /\ e5 + g.g5 * n <= 4      \* keeps every intermediate inside TLC's 32-bit integers
  /\ IF g.diag THEN /\ poly' = ApplyDiag(poly, g, ps) /\ UNCHANGED <<e2, e5>>
     ELSE /\ poly' = ApplyLinear(poly, g, ps)
          \* every monomial has the same total n: the untouched factors are rescaled so that one denominator serves all
          /\ e2' = e2 + g.g2 * n /\ e5' = e5 + g.g5 * n
  /\ poly2' = IF ~UsePerm THEN poly2
              ELSE LET ps2 == [i \in 1..Len(g.modes) |-> Perm[g.modes[i] + 1] + 1] IN
                   IF g.diag THEN ApplyDiag(poly2, g, ps2) ELSE ApplyLinear(poly2, g, ps2)
  /\ depth' = depth + 1 /\ hist' = Append(hist, [gate |-> gi])
  /\ UNCHANGED <<nmodes, live, nfn, nfd>>

(* ---- loss = unitary dilation: a beamsplitter between the mode and a FRESH ancilla (appended last, never touched again) ---- *)
Loss(li) ==
  LET g == Losses[li] n == Total(poly) ps == <<PosOf(g.modes[1]), nmodes + 1>> IN
  /\ depth < MaxDepth /\ Applicable(g)
  /\ e2 + g.g2 * n <= 12 /\ e5 + g.g5 * n <= 4
  /\ poly' = ApplyLinear([v \in { Append(u, 0) : u \in DOMAIN poly } |-> poly[SubSeq(v, 1, nmodes)]], g, ps)
  /\ e2' = e2 + g.g2 * n /\ e5' = e5 + g.g5 * n /\ nmodes' = nmodes + 1
  /\ depth' = depth + 1 /\ hist' = Append(hist, [loss |-> li])
  /\ UNCHANGED <<live, nfn, nfd, poly2>>

(* ---- projection on an outcome of a particle-number measurement of the system modes `labels` ---- *)
RemoveAt(v, ps) == LET keep == SelectSeq([i \in 1..Len(v) |-> i], LAMBDA i : \A j \in 1..Len(ps) : ps[j] # i) IN [i \in 1..Len(keep) |-> v[keep[i]]]
Proj(p, ps, o) == [r \in { RemoveAt(v, ps) : v \in { u \in DOMAIN p : RestrictTo(u, ps) = o } } |->
                     p[CHOOSE v \in DOMAIN p : RestrictTo(v, ps) = o /\ RemoveAt(v, ps) = r]]
OutcomesOf(p, ps) == { RestrictTo(v, ps) : v \in DOMAIN p }
PosSeq(labels) == [i \in 1..Len(labels) |-> PosOf(labels[i])]
Project(labels, o, tag) ==
  LET ps == PosSeq(labels) IN
  /\ poly' = Proj(poly, ps, o)
  /\ nfd' = nfd * VFact(o) /\ nmodes' = nmodes - Len(labels)
  /\ live' = SelectSeq(live, LAMBDA x : \A i \in 1..Len(labels) : labels[i] # x)
  /\ depth' = depth + 1 /\ hist' = Append(hist, [kind |-> tag, modes |-> labels, outcome |-> o])
  /\ UNCHANGED <<e2, e5, nfn, poly2>>
MeasureA == /\ Measure /\ depth < MaxDepth
            /\ \E labels \in MeasSets : /\ \A i \in 1..Len(labels) : \E j \in 1..Len(live) : live[j] = labels[i]
                                        /\ \E o \in OutcomesOf(poly, PosSeq(labels)) : Project(labels, o, "meas")

Next == \/ \E gi \in 1..Len(Gates) : Gate(gi)
        \/ \E li \in 1..Len(Losses) : Loss(li)
        \/ MeasureA
Spec == Init /\ [][Next]_vars
------------------------------------------------------------------------------
Den2 == IPow(2, e2) * IPow(25, e5)                 \* den^2 = 2^e2 * 25^e5
Prob(v) == SScale(VFact(v), RAbs2(poly[v]))        \* numerator in Z[sqrt2]; probability = Prob(v) / Den2
NormNum == SSum(DOMAIN poly, Prob)
(* unitary gates preserve the norm: SUM_v |c_v|^2 v! = den^2 exactly *)
(* p + q sqrt2 <= c for integers *)
SLeqInt(u, c) == LET a == c - u[1] q == u[2] IN
                 IF q <= 0 /\ a >= 0 THEN TRUE ELSE IF q > 0 /\ a < 0 THEN FALSE
                 ELSE IF q > 0 THEN 2 * q * q <= a * a ELSE 2 * q * q >= a * a
NoProjection == \A i \in 1..Len(hist) : "kind" \notin DOMAIN hist[i]
(* unitary gates and the dilation preserve the norm exactly; projections can only lower it *)
NormIsOne == NoProjection => NormNum = <<Den2 * nfn, 0>>
NormAtMostOne == SLeqInt(SScale(nfd, NormNum), Den2 * nfn)
(* chain rule on the specification: the weights of all outcomes of any measurable mode set add up to the current norm *)
WeightOf(p) == SSum(DOMAIN p, LAMBDA v : SScale(VFact(v), RAbs2(p[v])))
ChainRule == \A labels \in MeasSets :
   (\A i \in 1..Len(labels) : \E j \in 1..Len(live) : live[j] = labels[i]) =>
      LET ps == PosSeq(labels) IN
      SSum(OutcomesOf(poly, ps), LAMBDA o : SScale(VFact(o), WeightOf(Proj(poly, ps, o)))) = NormNum
(* measuring A then B projects on the same state as measuring A and B together *)
SeqEqJoint == \A A \in MeasSets, B \in MeasSets :
   ((\A i \in 1..Len(A) : \E j \in 1..Len(live) : live[j] = A[i]) /\ (\A i \in 1..Len(B) : \E j \in 1..Len(live) : live[j] = B[i])
     /\ \A i \in 1..Len(A), j \in 1..Len(B) : A[i] # B[j]) =>
      LET psA == PosSeq(A)
          liveA == SelectSeq(live, LAMBDA x : \A i \in 1..Len(A) : A[i] # x)
          psB == [i \in 1..Len(B) |-> CHOOSE k \in 1..Len(liveA) : liveA[k] = B[i]]
          psAB == PosSeq(A \o B)
      IN \A oA \in OutcomesOf(poly, psA) : \A oB \in OutcomesOf(Proj(poly, psA, oA), psB) :
            Proj(Proj(poly, psA, oA), psB, oB) = Proj(poly, psAB, oA \o oB)
SameTotal == \A u, v \in DOMAIN poly : SumSeq(u) = SumSeq(v)
(* C16: relabelling the modes of the program (and of the input) relabels the state *)
RelabelEquivariant == UsePerm => /\ DOMAIN poly2 = { PermVec(v) : v \in DOMAIN poly }
                                 /\ \A v \in DOMAIN poly : poly2[PermVec(v)] = poly[v]
(* C16: two gates on disjoint sets of modes commute (exactly, including the common denominator) *)
ApplyG(p, g) == LET ps == [i \in 1..Len(g.modes) |-> g.modes[i] + 1] IN IF g.diag THEN ApplyDiag(p, g, ps) ELSE ApplyLinear(p, g, ps)
DisjointGates(g1, g2) == \A i \in 1..Len(g1.modes), j \in 1..Len(g2.modes) : g1.modes[i] # g2.modes[j]
CommuteDisjoint == (depth < CommuteDepth /\ nmodes = D /\ Len(live) = D) =>
   \A i \in 1..Len(Gates), j \in 1..Len(Gates) :
      (i < j /\ DisjointGates(Gates[i], Gates[j])) => ApplyG(ApplyG(poly, Gates[i]), Gates[j]) = ApplyG(ApplyG(poly, Gates[j]), Gates[i])
ExportState == Export => PrintT(<<"OPT", ToJson([hist |-> hist, e2 |-> e2, e5 |-> e5, nfn |-> nfn, nfd |-> nfd, live |-> live, nmodes |-> nmodes,
                                                terms |-> [v \in DOMAIN poly |-> poly[v]]])>>)
=============================================================================
