------------------------------ MODULE MCEngine ------------------------------
(* Free (unconstrained) model of PqEngine for exhaustive checking: the program, *)
(* the shots and every nondeterministic choice of the environment (outcomes,   *)
(* faults) are enumerated by TLC.                                               *)
EXTENDS PqEngine, Json

CONSTANTS DModes,        \* number of modes of the simulator
          MaxLen,        \* maximal program length
          MaxShots,      \* shots range 1..MaxShots (plus None, plus invalid if WithInvalid)
          Faults,        \* BOOLEAN: inject exceptions at resolve / validate / step
          WithInvalid,   \* BOOLEAN: single-fault mutants of programs (C13)
          Conds          \* set of condition kinds used

ModeTuples == { <<m>> : m \in 0..(DModes - 1) } \cup
              UNION { { <<a, b>> : b \in (0..(DModes - 1)) \ {a} } : a \in 0..(DModes - 1) }
Gate(ms, c, u) == [kind |-> "gate", modes |-> ms, cond |-> c, unres |-> u, sup |-> TRUE, midok |-> TRUE, noneok |-> TRUE,
                   nmodes |-> 0, normproj |-> FALSE, emits |-> FALSE]
Meas(ms, mid, nk) == [kind |-> "meas", modes |-> ms, cond |-> "none", unres |-> FALSE, sup |-> TRUE, midok |-> mid,
                      noneok |-> nk, nmodes |-> 0, normproj |-> TRUE, emits |-> TRUE]
Prep(ms) == [kind |-> "prep", modes |-> ms, cond |-> "none", unres |-> FALSE, sup |-> TRUE, midok |-> TRUE, noneok |-> TRUE,
             nmodes |-> 0, normproj |-> FALSE, emits |-> FALSE]
ValidInstrs == { Gate(ms, c, u) : ms \in ModeTuples \cup {<<>>}, c \in Conds, u \in BOOLEAN }
               \cup { Meas(ms, TRUE, TRUE) : ms \in { t \in ModeTuples : Len(t) = 1 } \cup {<<>>} }
               \cup { Prep(<<>>) }
InvalidInstrs == IF WithInvalid THEN
     { [Gate(<<0>>, "none", FALSE) EXCEPT !.sup = FALSE],            \* unsupported instruction
       Gate(<<DModes>>, "none", FALSE),                              \* mode out of range
       Meas(<<0>>, FALSE, TRUE),                                     \* measurement not allowed mid-circuit
       Meas(<<0>>, TRUE, FALSE),                                     \* measurement not allowed with shots=None
       [Gate(<<>>, "none", FALSE) EXCEPT !.nmodes = 1] }             \* arity mismatch on default modes
   ELSE {}

RECURSIVE Progs(_)
Progs(n) == IF n = 0 THEN {<<>>} ELSE LET P == Progs(n - 1) IN
            P \cup { Append(p, i) : p \in { q \in P : Len(q) = n - 1 }, i \in ValidInstrs \cup InvalidInstrs }
PrepLate(p) == { i \in 1..Len(p) : p[i].kind = "prep" /\ \E j \in 1..(i - 1) : p[j].kind # "prep" }
NInvalid(p) == Cardinality({ i \in 1..Len(p) : p[i] \in InvalidInstrs }) + Cardinality(PrepLate(p))

MCInit ==
  /\ prog \in { p \in Progs(MaxLen) : Len(p) >= 1 /\ NInvalid(p) <= (IF WithInvalid THEN 1 ELSE 0) }
  /\ simd \in (IF WithInvalid THEN {DModes, 0} ELSE {DModes})
  /\ shots \in (1..MaxShots) \cup {NoneShots} \cup (IF WithInvalid THEN {-1} ELSE {})
  /\ stateOK \in (IF WithInvalid THEN {"none", "ok", "wrongclass", "wrongd"} ELSE {"none"})
  /\ phase = "idle" /\ d = 0 /\ pc = 0 /\ stage = "begin" /\ bidx = 1 /\ active = <<>>
  /\ branches = <<>> /\ newb = <<>> /\ stored = [i \in 1..Len(prog) |-> prog[i].modes]
  /\ resolved = {} /\ exc = "" /\ nsteps = 0

(* environment choices for a step *)
Outcomes == {0, 1}
RECURSIVE Splits(_, _)      \* all ways to give k shots to the outcomes in os (sequence), each count >= 0
Splits(k, n) == IF n = 1 THEN {<<k>>} ELSE UNION { { <<a>> \o r : r \in Splits(k - a, n - 1) } : a \in 0..k }
MeasSubs(b) ==
  IF shots = NoneShots
  THEN { << [o |-> <<0>>, k |-> 0, wn |-> 1, wd |-> 2, sn |-> 1, sid |-> 0], [o |-> <<1>>, k |-> 0, wn |-> 1, wd |-> 2, sn |-> 1, sid |-> 0] >>,
         << [o |-> <<0>>, k |-> 0, wn |-> 1, wd |-> 4, sn |-> 1, sid |-> 0], [o |-> <<1>>, k |-> 0, wn |-> 3, wd |-> 4, sn |-> 1, sid |-> 0] >>,
         << [o |-> <<1>>, k |-> 0, wn |-> 1, wd |-> 1, sn |-> 1, sid |-> 0] >> }
  ELSE { LET nz == SelectSeq(<<1, 2>>, LAMBDA j : sp[j] > 0) IN
         [i \in 1..Len(nz) |-> [o |-> <<nz[i] - 1>>, k |-> sp[nz[i]], wn |-> 1, wd |-> 1, sn |-> 1, sid |-> 0]]
         : sp \in Splits(b.k, 2) }
GateSubs(b) == { << [o |-> <<>>, k |-> b.k, wn |-> b.wn, wd |-> b.wd, sn |-> 1, sid |-> 0] >> }
MergeOf(b, s) == [o |-> b.o \o s.o,
                  k |-> (IF Cur.kind = "meas" THEN s.k ELSE b.k),
                  wn |-> (IF Cur.kind = "meas" THEN b.wn * s.wn ELSE b.wn),
                  wd |-> (IF Cur.kind = "meas" THEN b.wd * s.wd ELSE b.wd)]

MCStep == \/ \E subs \in (IF Cur.kind = "meas" THEN MeasSubs(branches[bidx]) ELSE GateSubs(branches[bidx])) :
               Step(subs, [i \in 1..Len(subs) |-> MergeOf(branches[bidx], subs[i])], <<1, 1>>, TRUE, "")
          \/ (Faults /\ Step(<<>>, <<>>, <<1, 1>>, FALSE, "RuntimeError"))

MCNext == \/ CheckShots \/ ValidateAll \/ ValidateState \/ (Faults /\ UpfrontParam(FALSE, "InvalidParameter")) \/ InstrBegin \/ NoneCheck \/ (phase = "running" /\ stage = "cond" /\ ~AllDone /\ CondEval(CondValue(Cur.cond, branches[bidx].o)))
          \/ Resolve(TRUE) \/ (Faults /\ Resolve(FALSE))
          \/ ValidateParams(TRUE, "") \/ (Faults /\ ValidateParams(FALSE, "InvalidParameter"))
          \/ (phase = "running" /\ stage = "step" /\ MCStep)
          \/ Unresolve \/ InstrEnd \/ Finish
MCSpec == MCInit /\ [][MCNext]_vars

(* valid programs are never refused: a program without injected invalidity, without faults and  *)
(* whose conditions cannot raise ends in "done" unless a mode was measured twice (ValueError)  *)
NeverRefuseValid == (phase = "failed" /\ ~Faults /\ NInvalid(prog) = 0 /\ ShotsValid /\ stateOK \in {"none", "ok"} /\ DUse # 0)
                      => exc \in {"ValueError", "PiquassoException"}
ExportEnd == Ended =>
  PrintT(<<"BEHAV", ToJson([prog |-> prog, simd |-> simd, shots |-> shots, stateOK |-> stateOK, phase |-> phase, exc |-> exc,
                            pc |-> pc, bidx |-> bidx, stage |-> stage, nsteps |-> nsteps,
                            branches |-> [i \in 1..Len(branches) |-> [o |-> branches[i].o, k |-> branches[i].k,
                                                                      wn |-> branches[i].wn, wd |-> branches[i].wd]]])>>)
Terminates == <>(phase \in {"done", "failed"})
=============================================================================
