SPECIFICATION MCSpec
CONSTANTS
  NoneShots = 0
  Exact = TRUE
  WUnit = 1
  WTol = 0
  DModes = 2
  MaxLen = 2
  MaxShots = 1
  Faults = FALSE
  WithInvalid = TRUE
  Conds = {"none"}
INVARIANT FrameOnEnd
INVARIANT ShotsConserved
INVARIANT RejectBeforeEvolve
INVARIANT NeverRefuseValid
INVARIANT ActiveIsSubsequence
