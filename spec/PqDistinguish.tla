----------------------------- MODULE PqDistinguish -----------------------------
(* C05 / C02.  Partially distinguishable photons, by definition: photon i enters spatial mode ms[i] in    *)
(* the internal state  phi_i = SUM_c w[i][c] e_c / |w[i]|  (NC orthonormal internal components), the       *)
(* documented Gram matrix being G[i][j] = <phi_i | phi_j>.  The optical state lives on DS * NC modes,      *)
(* mode (m, c) = m + c * DS (0-based); it is the polynomial                                                *)
(*        PROD_i ( SUM_c w[i][c] a^dagger_(ms[i], c) ) |0>      (normalised by its own norm),              *)
(* a linear-optical gate acts identically on every internal component (block-diagonal one-particle matrix),*)
(* and detectors do not resolve the internal state: the probability of the spatial pattern s is the sum of *)
(* the Born probabilities of all occupations v with  SUM_c v[(m, c)] = s[m].                               *)
(* Everything is PqOptics' own substitution semantics (ApplyLinear, MulLin, Prob): no Gram-matrix formula, *)
(* no permanents, no mixture decomposition is assumed -- those are what the implementation uses and what   *)
(* the replay compares against this definition.                                                            *)
EXTENDS PqOptics

CONSTANTS DS, NC,         \* spatial modes, internal components;  D = DS * NC in the configuration
          Photons,        \* set of records [ms |-> Seq of spatial modes (0-based, ascending), w |-> Seq of Seq(NC) over R (numerators in Z[i])]
          ExportDist

ModeOf(m, c) == m + c * DS + 1            \* 1-based position of mode (m, c)
ZeroV == [i \in 1..D |-> 0]
(* multiply a polynomial in all D variables by the linear form SUM_c w[c] x_(m, c) *)
LinCol(m, w) == [r \in 1..D |-> <<IF \E c \in 0..(NC - 1) : ModeOf(m, c) = r THEN w[(CHOOSE c \in 0..(NC - 1) : ModeOf(m, c) = r) + 1] ELSE RZero>>]
RECURSIVE InputFrom(_, _, _)
InputFrom(P, ph, i) == IF i > Len(ph.ms) THEN P ELSE InputFrom(MulLin(P, LinCol(ph.ms[i], ph.w[i]), 1, D), ph, i + 1)
InputPoly(ph) == Clean(InputFrom([z \in {ZeroV} |-> ROne], ph, 1))

(* block-diagonal copy of a spatial gate: the same k x k matrix on every internal component *)
BigModes(g) == [a \in 1..(Len(g.modes) * NC) |-> ModeOf(g.modes[((a - 1) % Len(g.modes)) + 1], (a - 1) \div Len(g.modes)) - 1]
BigM(g) == LET k == Len(g.modes) IN
           [r \in 1..(k * NC) |-> [c \in 1..(k * NC) |->
              IF (r - 1) \div k = (c - 1) \div k THEN g.M[((r - 1) % k) + 1][((c - 1) % k) + 1] ELSE RZero]]
Big(g) == [g EXCEPT !.modes = BigModes(g), !.M = BigM(g)]

DInit == /\ \E ph \in Photons : LET P == InputPoly(ph) w == WeightOf(P) IN
              /\ poly = P /\ nfn = w[1] /\ w[2] = 0 /\ hist = <<[input |-> ph]>>
         /\ nfd = 1 /\ poly2 = <<>> /\ e2 = 0 /\ e5 = 0 /\ nmodes = D /\ live = [i \in 1..D |-> i - 1] /\ depth = 0
SpatialGate(gi) ==
  LET g == Big(Gates[gi]) ps == [i \in 1..Len(g.modes) |-> g.modes[i] + 1] n == Total(poly) IN
  /\ depth < MaxDepth /\ ~Gates[gi].diag
  /\ e2 + g.g2 * n <= 12 /\ e5 + g.g5 * n <= 4
  /\ poly' = ApplyLinear(poly, g, ps)
  /\ e2' = e2 + g.g2 * n /\ e5' = e5 + g.g5 * n
  /\ depth' = depth + 1 /\ hist' = Append(hist, [gate |-> gi])
  /\ UNCHANGED <<nmodes, live, nfn, nfd, poly2>>
(* loss on the spatial mode of Losses[li]: the documented dilation on every internal component, each with its own fresh ancilla *)
(* (a lost photon keeps its internal state); one block-diagonal step, so that the common denominator grows once             *)
SpatialLoss(li) ==
  LET g0 == Losses[li] m == g0.modes[1] n == Total(poly)
      g == [g0 EXCEPT !.M = BigM([g0 EXCEPT !.modes = <<0, 1>>])]
      ps == [a \in 1..(2 * NC) |-> IF (a - 1) % 2 = 0 THEN ModeOf(m, (a - 1) \div 2) ELSE nmodes + ((a - 1) \div 2) + 1]
      ext == [v \in { u \o [c \in 1..NC |-> 0] : u \in DOMAIN poly } |-> poly[SubSeq(v, 1, nmodes)]]
  IN /\ depth < MaxDepth
     /\ e2 + g.g2 * n <= 12 /\ e5 + g.g5 * n <= 4
     /\ poly' = ApplyLinear(ext, g, ps)
     /\ e2' = e2 + g.g2 * n /\ e5' = e5 + g.g5 * n /\ nmodes' = nmodes + NC
     /\ depth' = depth + 1 /\ hist' = Append(hist, [loss |-> li])
     /\ UNCHANGED <<live, nfn, nfd, poly2>>
DNext == (\E gi \in 1..Len(Gates) : SpatialGate(gi)) \/ (\E li \in 1..Len(Losses) : SpatialLoss(li))
DSpec == DInit /\ [][DNext]_vars
------------------------------------------------------------------------------
Spatial(v) == [m \in 1..DS |-> SumSeq([c \in 1..NC |-> v[ModeOf(m - 1, c - 1)]])]
Patterns == { Spatial(v) : v \in DOMAIN poly }
PatternNum(s) == SSum({ v \in DOMAIN poly : Spatial(v) = s }, Prob)         \* probability = PatternNum(s) / (Den2 * nfn)
(* gates are unitary on every internal component: the norm is conserved exactly *)
DNormIsOne == NormNum = <<Den2 * nfn, 0>>
(* the Gram matrix of the input, by definition (exported so that the replay hands exactly this matrix to the implementation) *)
Dot(u, v) == RSum(1..NC, LAMBDA c : RMul(RConj(u[c]), v[c]))
ExportDistRec == ExportDist =>
  PrintT(<<"DIST", ToJson([hist |-> hist, den |-> Den2 * nfn, law |-> [s \in Patterns |-> PatternNum(s)]])>>)
DCheck == DNormIsOne /\ ExportDistRec
=============================================================================
