------------------------------- MODULE PqSampler -------------------------------
(* C02.  The chain-rule sampler of the passive simulator (Clifford & Clifford algorithm B with the      *)
(* piquasso extensions: uniform loss by per-particle rejection, post-selection by pruned rejection      *)
(* sampling) as a PROBABILISTIC state machine, on top of the exact reference semantics PqOptics.        *)
(*                                                                                                      *)
(* Phase "circ": the circuit is built by PqOptics' own Gate action (state = polynomial `poly`), while   *)
(*   this module accumulates what the implementation keeps instead of a state: the one-particle        *)
(*   matrix T (numerator over Z[sqrt2, i]; the common denominator cancels in every pmf) and the         *)
(*   uniform transmission probability kp.  Uniform loss = the documented dilation applied to every      *)
(*   mode (D fresh ancillas in `poly`).                                                                *)
(* Phase "samp": one TRIAL of the sampler.  `dist` is the exact probability distribution over the       *)
(*   configurations of the machine after `it` loop iterations; one TLC step = one loop iteration of     *)
(*   _generate_sample_with_postselect pushed forward over all random choices                           *)
(*   (reject?  x  which input particle  x  which output mode), with the weights the code hands to its   *)
(*   RNG: (1 - kp | kp)  x  uniform over the remaining particles  x  pmf,                               *)
(*   pmf[j] = |SUM_m cur[m] T[j][m] Per(T[smp | cur - e_m])|^2 / normalisation  (Laplace expansion along *)
(*   the new row, exactly the structure of _calculate_pmf).                                             *)
(* Theorem checked by TLC on every instance (LawIsBorn): the law of the accepted sample of a trial,     *)
(*   normalised, equals the Born distribution of `poly` on the system modes, conditioned on the         *)
(*   post-selected photon numbers and with the post-selected modes removed.  Since trials are i.i.d.    *)
(*   this is the law of the returned sample.                                                            *)
EXTENDS PqOptics

CONSTANTS PostSels,      \* set of records [modes |-> Seq of positions 1..D (ascending), photons |-> Seq of Nat]
          LossKinds,     \* Seq of loss records (modes field ignored): uniform loss applies the record to every mode
          FixedReject,   \* TRUE: a rejected (lost) particle also triggers the `photons_needed > n - k` pruning (the repaired code);
                         \* FALSE: the loop `continue`s straight away (the code before the fix) -- LawIsBorn then fails
          ExportLaw
VARIABLES T,             \* D x D matrix over R (numerator of the one-particle transfer matrix)
          kp,            \* uniform transmission probability (an element of Q(sqrt2), see F below)
          ph, dist, it, ps
svars == <<T, kp, ph, dist, it, ps>>

(* ---------- the real field Q(sqrt2): [a, b, d] = (a + b sqrt2) / d, gcd-reduced, d > 0 ---------- *)
RECURSIVE GCDn(_, _)
GCDn(a, b) == IF b = 0 THEN a ELSE GCDn(b, a % b)
AbsN(a) == IF a < 0 THEN -a ELSE a
FNorm(a, b, d) == LET s == IF d < 0 THEN -1 ELSE 1
                      g == GCDn(GCDn(AbsN(a), AbsN(b)), AbsN(d)) IN
                  [a |-> (s * a) \div g, b |-> (s * b) \div g, d |-> (s * d) \div g]
FZero == [a |-> 0, b |-> 0, d |-> 1]
FOne == [a |-> 1, b |-> 0, d |-> 1]
FInt(k) == [a |-> k, b |-> 0, d |-> 1]
FIsZero(x) == x.a = 0 /\ x.b = 0
FAdd(x, y) == IF FIsZero(x) THEN y ELSE IF FIsZero(y) THEN x ELSE
              LET g == GCDn(x.d, y.d) xm == y.d \div g ym == x.d \div g IN
              FNorm(x.a * xm + y.a * ym, x.b * xm + y.b * ym, x.d * xm)
FMul(x, y) == IF FIsZero(x) \/ FIsZero(y) THEN FZero ELSE
              LET g1 == GCDn(GCDn(AbsN(x.a), AbsN(x.b)), y.d) g2 == GCDn(GCDn(AbsN(y.a), AbsN(y.b)), x.d)
                  xa == x.a \div g1 xb == x.b \div g1 yd == y.d \div g1
                  ya == y.a \div g2 yb == y.b \div g2 xd == x.d \div g2 IN
              FNorm(xa * ya + 2 * xb * yb, xa * yb + xb * ya, xd * yd)
FInv(x) == IF x.b = 0 THEN FNorm(x.d, 0, x.a)
           ELSE LET g == GCDn(AbsN(x.a), AbsN(x.b)) a1 == x.a \div g b1 == x.b \div g nn == a1 * a1 - 2 * b1 * b1
                    h == GCDn(x.d, g * AbsN(nn)) IN           \* d (a1 - b1 sqrt2) / (g nn)
                FNorm(a1 * (x.d \div h), -(b1 * (x.d \div h)), (g * nn) \div h)
FDiv(x, y) == FMul(x, FInv(y))
FSub(x, y) == FAdd(x, [y EXCEPT !.a = -y.a, !.b = -y.b])
FFromS(u) == FNorm(u[1], u[2], 1)
FSum(S, f(_)) == FoldSet(LAMBDA x, acc : FAdd(f(x), acc), FZero, S)

(* ---------- permanents with multiplicities (rows = output occupation s, columns = input occupation r) ---------- *)
FirstPos(s) == CHOOSE j \in 1..Len(s) : s[j] > 0 /\ \A i \in 1..(j - 1) : s[i] = 0
RECURSIVE PerM(_, _)
PerM(s, r) == IF SumSeq(s) = 0 THEN ROne
              ELSE LET j == FirstPos(s) IN
                   RSum({ m \in 1..D : r[m] > 0 }, LAMBDA m : RScale(r[m], RMul(T[j][m], PerM(SubAt(s, j), SubAt(r, m)))))
(* _calculate_pmf: unnormalised weight of output mode j given the partial sample s and the grown input r (|r| = |s| + 1) *)
PmfNum(j, s, r) == RAbs2(RSum({ m \in 1..D : r[m] > 0 }, LAMBDA m : RScale(r[m], RMul(T[j][m], PerM(s, SubAt(r, m))))))
PmfTot(s, r) == SSum(1..D, LAMBDA j : PmfNum(j, s, r))
(* the common integer factor of the D weights is divided out before the division (keeps TLC inside 32-bit integers) *)
PmfGcd(s, r) == FoldSet(LAMBDA j, acc : LET u == PmfNum(j, s, r) IN GCDn(GCDn(AbsN(u[1]), AbsN(u[2])), acc), 0, 1..D)
Pmf(j, s, r) == LET g == PmfGcd(s, r) u == PmfNum(j, s, r) t == PmfTot(s, r) IN
                FDiv(FNorm(u[1] \div g, u[2] \div g, 1), FNorm(t[1] \div g, t[2] \div g, 1))

(* ---------- the machine ---------- *)
N == Total(poly)
InputVec == hist[1].input
ZeroD == [i \in 1..D |-> 0]
PsIdx(j) == IF \E a \in 1..Len(ps.modes) : ps.modes[a] = j THEN CHOOSE a \in 1..Len(ps.modes) : ps.modes[a] = j ELSE 0
Cfg0 == [k |-> 0, cur |-> ZeroD, rest |-> InputVec, smp |-> ZeroD, need |-> SumSeq(ps.photons), diff |-> ps.photons, st |-> "run"]
EndOfIter(c, k) == IF c.need > N - k THEN "abort" ELSE IF k = N THEN "accept" ELSE "run"
(* successors of a running configuration: set of <<child, probability>> *)
Succ(c) ==
  LET k == c.k + 1
      rej == IF kp = FOne THEN {}
             ELSE { <<[c EXCEPT !.k = k, !.st = IF FixedReject THEN EndOfIter(c, k) ELSE IF k = N THEN "accept" ELSE "run"], FSub(FOne, kp)>> }
      nrest == SumSeq(c.rest)
      keep == UNION { LET cur2 == AddAt(c.cur, m) rest2 == SubAt(c.rest, m) IN
                { LET a == PsIdx(j)
                      need2 == IF a = 0 THEN c.need ELSE c.need - 1
                      diff2 == IF a = 0 THEN c.diff ELSE [c.diff EXCEPT ![a] = c.diff[a] - 1]
                      c2 == [k |-> k, cur |-> cur2, rest |-> rest2, smp |-> AddAt(c.smp, j), need |-> need2, diff |-> diff2, st |-> "run"]
                  IN <<[c2 EXCEPT !.st = IF a # 0 /\ diff2[a] < 0 THEN "abort" ELSE EndOfIter(c2, k)],
                       FMul(kp, FMul(FNorm(c.rest[m], 0, nrest), Pmf(j, c.smp, cur2)))>>
                  : j \in { jj \in 1..D : PmfNum(jj, c.smp, cur2) # SZero } }
              : m \in { mm \in 1..D : c.rest[mm] > 0 } }
  IN rej \cup keep
Triples(dd) == UNION { IF c.st = "run" THEN { <<c, sp[1], FMul(dd[c], sp[2])>> : sp \in Succ(c) } ELSE { <<c, c, dd[c]>> } : c \in DOMAIN dd }
Push(dd) == LET tr == Triples(dd) IN [c2 \in { t[2] : t \in tr } |-> FSum({ t \in tr : t[2] = c2 }, LAMBDA t : t[3])]

(* ---------- circuit phase: PqOptics' Gate plus the bookkeeping of T ---------- *)
ScaleR(g) == RMul(RPow(<<0, 1, 0, 0>>, g.g2), RInt(IPow(5, g.g5)))
Embed(g) == [r \in 1..D |-> [c \in 1..D |->
               LET pr == IF \E i \in 1..Len(g.modes) : g.modes[i] = r - 1 THEN CHOOSE i \in 1..Len(g.modes) : g.modes[i] = r - 1 ELSE 0
                   pc == IF \E i \in 1..Len(g.modes) : g.modes[i] = c - 1 THEN CHOOSE i \in 1..Len(g.modes) : g.modes[i] = c - 1 ELSE 0
               IN IF pr # 0 /\ pc # 0 THEN g.M[pr][pc] ELSE IF r = c /\ pr = 0 THEN ScaleR(g) ELSE RZero]]
RDot(A, B, i, j) == RSum(1..D, LAMBDA k : RMul(A[i][k], B[k][j]))
MatMul(A, B) == [i \in 1..D |-> [j \in 1..D |-> RDot(A, B, i, j)]]
Ident == [i \in 1..D |-> [j \in 1..D |-> IF i = j THEN ROne ELSE RZero]]

RECURSIVE LossFold(_, _, _, _)
LossFold(p, g, m, nm) == IF m > D THEN p
                         ELSE LossFold(ApplyLinear([v \in { Append(u, 0) : u \in DOMAIN p } |-> p[SubSeq(v, 1, nm)]], g, <<m, nm + 1>>), g, m + 1, nm + 1)
LossAll(li) ==
  LET g == LossKinds[li] n == Total(poly) IN
  /\ depth < MaxDepth /\ nmodes = D            \* at most one uniform loss layer per circuit (more would be the same with another t)
  /\ e2 + D * g.g2 * n <= 12 /\ e5 + D * g.g5 * n <= 4
  /\ poly' = LossFold(poly, g, 1, nmodes)
  /\ e2' = e2 + D * g.g2 * n /\ e5' = e5 + D * g.g5 * n /\ nmodes' = nmodes + D
  /\ depth' = depth + 1 /\ hist' = Append(hist, [lossall |-> li])
  \* transmission probability t^2 = M[1][1]^2 / (2^g2 * 25^g5)   (M[1][1] is a rational integer for every lattice loss)
  /\ kp' = FMul(kp, FNorm(g.M[1][1][1] * g.M[1][1][1], 0, IPow(2, g.g2) * IPow(25, g.g5)))
  /\ UNCHANGED <<live, nfn, nfd, poly2, T, ph, dist, it, ps>>

SInit == /\ Init /\ T = Ident /\ kp = FOne /\ ph = "circ" /\ dist = <<>> /\ it = 0
         /\ ps \in { q \in PostSels : \A a \in 1..Len(q.modes) : q.modes[a] <= D }
CircGate == /\ ph = "circ" /\ \E gi \in 1..Len(Gates) : Gate(gi) /\ ~Gates[gi].diag /\ T' = MatMul(Embed(Gates[gi]), T)
            /\ UNCHANGED <<kp, ph, dist, it, ps>>
CircLoss == ph = "circ" /\ \E li \in 1..Len(LossKinds) : LossAll(li)
Start == /\ ph = "circ" /\ depth > 0 /\ ph' = "samp" /\ dist' = [c \in {Cfg0} |-> FOne] /\ it' = 0
         /\ UNCHANGED <<vars, T, kp, ps>>
Iterate == /\ ph = "samp" /\ it < N /\ dist' = Push(dist) /\ it' = it + 1 /\ ph' = IF it + 1 = N THEN "done" ELSE "samp"
           /\ UNCHANGED <<vars, T, kp, ps>>
SNext == CircGate \/ CircLoss \/ Start \/ Iterate
SSpec == SInit /\ [][SNext]_<<vars, svars>>
------------------------------------------------------------------------------
(* every loop iteration conserves probability (this is the statement that each pmf handed to the RNG is normalised, *)
(* and that every path either runs on, is accepted or aborts)                                                            *)
MassConserved == ph \in {"samp", "done"} => FSum(DOMAIN dist, LAMBDA c : dist[c]) = FOne
AllFinal == ph = "done" => \A c \in DOMAIN dist : c.st \in {"accept", "abort"}

TrimPs(v) == RemoveAt(v, ps.modes)
AccOuts == { TrimPs(c.smp) : c \in { cc \in DOMAIN dist : cc.st = "accept" } }
Acc(out) == FSum({ c \in DOMAIN dist : c.st = "accept" /\ TrimPs(c.smp) = out }, LAMBDA c : dist[c])
AccTot == FSum({ c \in DOMAIN dist : c.st = "accept" }, LAMBDA c : dist[c])
(* Born distribution of the reference state on the system modes (ancillas of the loss dilation summed over) *)
SysPart(v) == SubSeq(v, 1, D)
PsMatch(w) == \A a \in 1..Len(ps.modes) : w[ps.modes[a]] = ps.photons[a]
BornOuts == { TrimPs(SysPart(v)) : v \in { u \in DOMAIN poly : PsMatch(SysPart(u)) } }
BornG == FoldSet(LAMBDA v, acc : LET u == Prob(v) IN GCDn(GCDn(AbsN(u[1]), AbsN(u[2])), acc), 0, { v \in DOMAIN poly : PsMatch(SysPart(v)) })
SRed(u) == IF BornG = 0 THEN FZero ELSE FNorm(u[1] \div BornG, u[2] \div BornG, 1)
Born(out) == SRed(SSum({ v \in DOMAIN poly : PsMatch(SysPart(v)) /\ TrimPs(SysPart(v)) = out }, Prob))
BornTot == SRed(SSum({ v \in DOMAIN poly : PsMatch(SysPart(v)) }, Prob))
(* accepted samples satisfy the post-selection *)
AcceptedArePostselected == ph = "done" => \A c \in DOMAIN dist : c.st = "accept" => PsMatch(c.smp)
LawIsBorn == ph = "done" =>
   /\ (FIsZero(BornTot) <=> FIsZero(AccTot))
   /\ ~FIsZero(BornTot) => \A out \in AccOuts \cup BornOuts : FDiv(Acc(out), AccTot) = FDiv(Born(out), BornTot)

(* export for the conformance side: the law, and the pmf of every (partial sample, grown input) the machine visits *)
FRec(x) == [a |-> x.a, b |-> x.b, d |-> x.d]
ExportLawRec == (ExportLaw /\ ph = "done") =>
  PrintT(<<"LAW", ToJson([hist |-> hist, ps |-> ps, kp |-> FRec(kp), acctot |-> FRec(AccTot),
                          law |-> [o \in AccOuts |-> FRec(FDiv(Acc(o), AccTot))]])>>)
Check == MassConserved /\ AllFinal /\ AcceptedArePostselected /\ LawIsBorn /\ ExportLawRec
=============================================================================
