SPECIFICATION Spec
CONSTANTS
  DMax = 6
  Export = FALSE
INVARIANT ValidSubset
INVARIANT RankIsPosition
INVARIANT FormulaAgrees
INVARIANT TotalIsDim
INVARIANT FullSpaceIsPowerOfTwo
INVARIANT ExportRow
