------------------------------- MODULE PqDecomp -------------------------------
(* C15.  Exact, structured inputs for the matrix decompositions, with the relations a decomposition has to        *)
(* satisfy stated on them.  On top of PqGaussian the accumulated ladder-operator matrix of the program,             *)
(*      Stot = E(g_n) ... E(g_1)      (xi -> Stot xi),                                                              *)
(* is carried along.  Reachable states provide, exactly and with their natural degeneracies (equal squeezings of    *)
(* two-mode squeezers, permutation and block-diagonal interferometers, single modes, identity):                     *)
(*   - a complex-form symplectic matrix Stot                           -> input of the Euler (Bloch-Messiah) split    *)
(*   - its passive block (a unitary) when every gate is passive        -> input of the Clements decomposition          *)
(*   - the anomalous moments  N[i][j] = <a_i a_j>  (complex symmetric)  -> input of the Takagi decomposition            *)
(*   - the covariance matrix (positive definite, pure or mixed)        -> input of the Williamson decomposition        *)
(* Theorems checked by TLC on every reachable state: Stot is symplectic, Stot Vac Stot^dagger is the state (for        *)
(* unitary programs), the anomalous block is symmetric, the passive block of a passive program is unitary, and a       *)
(* state reached by unitary gates is pure (so that its Williamson spectrum is hbar, maximally degenerate).            *)
EXTENDS PqGaussian

CONSTANTS ExportDecomp
VARIABLES Stot, mixed
dvars == <<Stot, mixed>>

DInit == Init /\ Stot = MId(2 * D) /\ mixed = FALSE
DNext == /\ depth < MaxDepth
         /\ \E gi \in 1..Len(Gates) :
              /\ (IF IsChannel(Gates[gi]) THEN ApplyAtten(Gates[gi]) ELSE ApplyGate(Gates[gi]))
              /\ depth' = depth + 1 /\ hist' = Append(hist, gi)
              /\ Stot' = IF IsChannel(Gates[gi]) THEN Stot ELSE Force(MMul(Force(Embed(Gates[gi])), Stot))
              /\ mixed' = (mixed \/ IsChannel(Gates[gi]))
DSpec == DInit /\ [][DNext]_<<vars, dvars>>
(* state constraint: TLC's integers are 32-bit; states whose exact moments have numerators or denominators above the bound are not explored *)
(* (their theorems would overflow in the products below) -- deep chains of strong squeezers in the thorough tier                       *)
Bounded(M, B) == \A i \in 1..Len(M) : \A j \in 1..Len(M[i]) :
                    M[i][j].d <= B /\ \A k \in 1..4 : M[i][j].n[k] <= B /\ M[i][j].n[k] >= -B
DecompConstraint == Bounded(Gam, 200) /\ Bounded(Stot, 200)
------------------------------------------------------------------------------
AllPassive == \A i \in 1..Len(hist) : Gates[hist[i]].passive
PassiveBlock == [i \in 1..D |-> [j \in 1..D |-> Stot[i][j]]]
Anomalous == [i \in 1..D |-> [j \in 1..D |-> Gam[i][D + j]]]
StotSymplectic == MEq(MMul(MMul(Stot, KMat(D)), MDag(Stot)), KMat(D))
StateFromStot == ~mixed => MEq(Gam, MMul(MMul(Stot, Vac), MDag(Stot)))
AnomalousSymmetric == MEq(Anomalous, MTr(Anomalous))
PassiveUnitary == (AllPassive /\ ~mixed) => /\ MEq(MMul(PassiveBlock, MDag(PassiveBlock)), MId(D))
                                            /\ \A i, j \in 1..D : QIsZero(Stot[i][D + j])
(* purity of unitary programs in the ladder form: with the symmetrically ordered moments  Sigma = Gam - K / 2  (xi xi^dagger =      *)
(* {xi, xi^dagger} / 2 + [xi, xi^dagger] / 2 and [xi, xi^dagger] = K), a Gaussian state is pure iff (2 Sigma K)^2 = 1, i.e. all    *)
(* symplectic eigenvalues of its quadrature covariance equal hbar.                                                               *)
SymGam == [i \in 1..(2 * D) |-> [j \in 1..(2 * D) |-> QSub(QMul(QInt(2), Gam[i][j]), KMat(D)[i][j])]]
PureState == ~mixed => LET X == Force(MMul(SymGam, KMat(D))) IN MEq(MMul(X, X), MId(2 * D))
ExportDecompRec == ExportDecomp =>
  PrintT(<<"DECOMP", ToJson([hist |-> hist, mixed |-> mixed, passive |-> AllPassive, Stot |-> Stot, anomalous |-> Anomalous,
                             cov |-> XXPPCov(HBars[1]), hbar |-> <<HBars[1][1], HBars[1][2]>>])>>)
DecompCheck == StotSymplectic /\ StateFromStot /\ AnomalousSymmetric /\ PassiveUnitary /\ PureState /\ ExportDecompRec
=============================================================================
