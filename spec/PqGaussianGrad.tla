---------------------------- MODULE PqGaussianGrad ----------------------------
(* C10 (Gaussian part).  Exact tangent of the Gaussian reference semantics: the derivative of (mu, Gam) with       *)
(* respect to ONE parameter of ONE gate.  A gate acts by  xi -> S xi + beta,  Gam -> E Gam E^dagger;  with dE the      *)
(* embedding of the derivative blocks (zero outside the gate's modes) the marked gate gives                            *)
(*      dGam = dE Gam E^dagger + E Gam dE^dagger ,      dmu = dP mu + dA conj(mu) + dalpha ,                            *)
(* and every later gate transports the tangent:  dGam -> E dGam E^dagger,  dmu -> P dmu + A conj(dmu).                  *)
(* The derivative blocks are lattice matrices again (d cosh = sinh, d e^{i phi} = i e^{i phi}, ...).                   *)
EXTENDS PqGaussian

CONSTANTS DGates,        \* Seq parallel to Gates: Seq of [P, A, alpha] derivative records (<<>> for none)
          ExportGrad
VARIABLES dmu, dGam, marked
gvars == <<dmu, dGam, marked>>

ZeroM == [i \in 1..(2 * D) |-> [j \in 1..(2 * D) |-> Q0]]
ZeroV == [i \in 1..D |-> Q0]
(* embedding of derivative blocks: like Embed, but zero (not the identity) outside the gate's modes *)
EmbedD(g, dg) == LET S == SOf([g EXCEPT !.P = dg.P, !.A = dg.A]) ix == IdxOf(g) k2 == 2 * Len(g.modes)
                     Pos(i) == IF \E t \in 1..k2 : ix[t] = i THEN CHOOSE t \in 1..k2 : ix[t] = i ELSE 0 IN
  [i \in 1..(2 * D) |-> [j \in 1..(2 * D) |-> IF Pos(i) # 0 /\ Pos(j) # 0 THEN S[Pos(i)][Pos(j)] ELSE Q0]]
(* linear part of the mean update with blocks (P, A) and inhomogeneous part al, applied to a vector v (identity outside the modes iff keep) *)
MeanMap(g, P, A, al, v, keep) ==
  LET k == Len(g.modes) IN
  [i \in 1..D |->
     IF \E t \in 1..k : g.modes[t] + 1 = i
     THEN LET t == CHOOSE tt \in 1..k : g.modes[tt] + 1 = i
              RECURSIVE S(_)
              S(c) == IF c > k THEN al[t]
                      ELSE QAdd(QAdd(QMul(P[t][c], v[g.modes[c] + 1]), QMul(A[t][c], QConj(v[g.modes[c] + 1]))), S(c + 1))
          IN S(1)
     ELSE IF keep THEN v[i] ELSE Q0]
ZeroAl(g) == [t \in 1..Len(g.modes) |-> Q0]

GInit == Init /\ dmu = ZeroV /\ dGam = ZeroM /\ marked = <<>>
Plain(gi) == LET g == Gates[gi] E == Force(Embed(g)) IN
  /\ ~IsChannel(g) /\ ApplyGate(g)
  /\ dGam' = IF marked = <<>> THEN dGam ELSE Force(MMul(Force(MMul(E, dGam)), Force(MDag(E))))
  /\ dmu' = IF marked = <<>> THEN dmu ELSE ForceRow(MeanMap(g, g.P, g.A, ZeroAl(g), dmu, TRUE), 1, <<>>)
  /\ UNCHANGED marked
Mark(gi, pk) == LET g == Gates[gi] dg == DGates[gi][pk] E == Force(Embed(g)) dE == Force(EmbedD(g, dg)) IN
  /\ marked = <<>> /\ ~IsChannel(g) /\ ApplyGate(g)
  /\ dGam' = Force(MAdd(MMul(Force(MMul(dE, Gam)), Force(MDag(E))), MMul(Force(MMul(E, Gam)), Force(MDag(dE)))))
  /\ dmu' = ForceRow(MeanMap(g, dg.P, dg.A, dg.alpha, mu, FALSE), 1, <<>>)
  /\ marked' = <<Len(hist) + 1, gi, pk>>
GNext == /\ depth < MaxDepth
         /\ \E gi \in 1..Len(Gates) : /\ (Plain(gi) \/ \E pk \in 1..Len(DGates[gi]) : Mark(gi, pk))
                                       /\ depth' = depth + 1 /\ hist' = Append(hist, gi)
GSpec == GInit /\ [][GNext]_<<vars, gvars>>
------------------------------------------------------------------------------
(* the commutation relations hold for every parameter value, so their derivative vanishes; the tangent of a Hermitian matrix is Hermitian *)
TangentCCR == marked # <<>> =>
   /\ \A i, j \in 1..D : QEq(dGam[i][j], dGam[D + j][D + i])
   /\ \A i, j \in 1..D : QEq(dGam[i][D + j], dGam[j][D + i])
TangentHermitian == MEq(dGam, MDag(dGam))
DCovCore == Force(MMul(Force(MMul(W0, dGam)), MDag(W0)))
DXXPPCov(h) == [i \in 1..(2 * D) |-> [j \in 1..(2 * D) |-> QMul(QFrac(h[1], h[2]), QRe(DCovCore[i][j]))]]
DXXPPMean(h) == [i \in 1..(2 * D) |-> QMul(QFrac(h[3], h[4]), IF i <= D THEN QRe(dmu[i]) ELSE QIm(dmu[i - D]))]
(* d <n_i> = d Gam[D+i][D+i] + 2 Re(conj(mu_i) dmu_i) *)
DMeanPhotons == [i \in 1..D |-> QAdd(dGam[D + i][D + i], QMul(QInt(2), QRe(QMul(QConj(mu[i]), dmu[i]))))]
ExportGradRec == (ExportGrad /\ marked # <<>>) =>
  PrintT(<<"GGRAD", ToJson([hist |-> hist, marked |-> marked,
                            reps |-> [h \in 1..Len(HBars) |-> [hbar |-> <<HBars[h][1], HBars[h][2]>>, dmean |-> DXXPPMean(HBars[h]), dcov |-> DXXPPCov(HBars[h])]],
                            dnbar |-> DMeanPhotons])>>)
GGCheck == GamHermitian /\ CCR /\ TangentCCR /\ TangentHermitian /\ ExportGradRec
=============================================================================
