----------------------------- MODULE PqOpticsGrad -----------------------------
(* C10.  Exact tangent semantics of PqOptics: the derivative of the state with respect to ONE parameter of   *)
(* ONE gate of the program.  A gate acts linearly on the state, so                                             *)
(*     d/dp ( G_n ... G_k(p) ... G_1 |in> )  =  G_n ... (dG_k/dp) ... G_1 |in>,                                 *)
(* and dG_k/dp is the substitution with the derivative of the documented one-particle matrix, which is again  *)
(* a lattice matrix with the same denominator (d cos = -sin, d e^{i phi} = i e^{i phi}).  `dpoly` carries the   *)
(* tangent with the SAME common denominator as `poly`; before the marked gate it is the zero polynomial.        *)
(* In Fock space the gate is the substitution a_c^dagger -> L_c, multiplicative on monomials, so its derivative   *)
(* is given by the Leibniz rule (ApplyLinearD), NOT by substituting the derivative matrix in every factor.         *)
(* Derivative of a Fock probability:  dP(v)/dp = 2 Re( conj(c_v) dc_v ) v! / den^2.                              *)
EXTENDS PqOptics

CONSTANTS DGates,        \* Seq parallel to Gates: Seq of derivative matrices, one per differentiable parameter (<<>> for none)
          ExportGrad
VARIABLES dpoly, marked  \* marked = <<>> or <<step index in hist, gate index, parameter index>>
gvars == <<dpoly, marked>>

PsOf(g) == [i \in 1..Len(g.modes) |-> PosOf(g.modes[i])]
(* Leibniz rule on the image of a monomial: d/dp PROD_c (L_c)^(t_c) = SUM_c t_c (dL_c) (L_c)^(t_c - 1) PROD_(c' # c) (L_c')^(t_c'),   *)
(* L_c = SUM_r M[r][c] x_r the image of a_c^dagger, dL_c the same linear form with the derivative matrix                             *)
AddPoly(P, Q) == [t \in DOMAIN P \cup DOMAIN Q |-> RAdd(IF t \in DOMAIN P THEN P[t] ELSE RZero, IF t \in DOMAIN Q THEN Q[t] ELSE RZero)]
ScalePoly(k, P) == [t \in DOMAIN P |-> RScale(k, P[t])]
RECURSIVE DImageFrom(_, _, _, _, _)
DImageFrom(M, dM, t, k, c) == IF c > k THEN <<>>
                              ELSE LET rest == DImageFrom(M, dM, t, k, c + 1) IN
                                   IF t[c] = 0 THEN rest
                                   ELSE AddPoly(ScalePoly(t[c], MulLin(ImageOf(M, SubAt(t, c), k), dM, c, k)), rest)
DImage(M, dM, t, k) == DImageFrom(M, dM, t, k, 1)
(* the tangent of ApplyLinear: same bookkeeping of the common denominator (every term carries s^n) *)
ApplyLinearD(p, g, dM, ps) ==
  LET k == Len(ps)
      n == IF DOMAIN p = {} THEN 0 ELSE SumSeq(CHOOSE v \in DOMAIN p : TRUE)
      Contrib(v) == DImage(g.M, dM, RestrictTo(v, ps), k)
      Dn == UNION { { Replace(v, ps, t2) : t2 \in DOMAIN Contrib(v) } : v \in DOMAIN p }
  IN Clean([v2 \in Dn |->
       RSum({ v \in DOMAIN p : /\ \A m \in 1..Len(v) : (\A i \in 1..k : ps[i] # m) => v[m] = v2[m]
                               /\ RestrictTo(v2, ps) \in DOMAIN Contrib(v) },
            LAMBDA v : RMul(ScaleOf(g, n - SumSeq(RestrictTo(v, ps))), RMul(p[v], Contrib(v)[RestrictTo(v2, ps)])))])
Tangent(g, dp) == IF dp = <<>> THEN dp ELSE IF g.diag THEN ApplyDiag(dp, g, PsOf(g)) ELSE ApplyLinear(dp, g, PsOf(g))
GInit == Init /\ dpoly = <<>> /\ marked = <<>>
PlainGate(gi) == /\ Gate(gi) /\ dpoly' = Tangent(Gates[gi], dpoly) /\ UNCHANGED marked
MarkGate(gi, pk) == /\ marked = <<>> /\ ~Gates[gi].diag /\ Gate(gi)
                    /\ dpoly' = ApplyLinearD(poly, Gates[gi], DGates[gi][pk], PsOf(Gates[gi]))
                    /\ marked' = <<Len(hist), gi, pk>>
GNext == \E gi \in 1..Len(Gates) : PlainGate(gi) \/ (\E pk \in 1..Len(DGates[gi]) : MarkGate(gi, pk))
GSpec == GInit /\ [][GNext]_<<vars, gvars>>
------------------------------------------------------------------------------
(* unitary evolution keeps the norm for every parameter value: the tangent is orthogonal to the state, Re <psi | dpsi> = 0 *)
ReProd(a, b) == LET z == RMul(RConj(a), b) IN <<z[1], z[2]>>
TangentOrthogonal == (marked # <<>> /\ NoProjection) =>
   SSum(DOMAIN poly \cap DOMAIN dpoly, LAMBDA v : SScale(VFact(v), ReProd(poly[v], dpoly[v]))) = SZero
ExportGradRec == (ExportGrad /\ marked # <<>>) =>
   PrintT(<<"GRAD", ToJson([hist |-> hist, marked |-> marked, e2 |-> e2, e5 |-> e5, nfn |-> nfn,
                            terms |-> [v \in DOMAIN poly |-> poly[v]], dterms |-> [v \in DOMAIN dpoly |-> dpoly[v]]])>>)
GCheck == NormIsOne /\ TangentOrthogonal /\ ExportGradRec
=============================================================================
