SPECIFICATION Spec
CONSTANTS
  MaxTok = 3
  XLen = 2
  XVals = {0, 1, 2}
  Rich = FALSE
INVARIANT Check
