------------------------------ MODULE MatrixEval ------------------------------
(* C04: evaluates the combinatorial definitions (MatrixFunctions) on instances   *)
(* supplied by the harness and the closed forms of the high-multiplicity regime  *)
(* (BigNat), and checks the 64-bit range theorem for the binomial arithmetic.    *)
EXTENDS MatrixFunctions, BigNat, TLC, Json
CONSTANTS PermI,     \* Seq of [A, rows, cols, lcols (sum = sum rows + 1)] -> PermDef, LaplaceDef
          HafI,      \* Seq of [A, diag, reduce]                   -> HafDef, LoopHafDef
          PfI,       \* Seq of integer antisymmetric matrices      -> PfDef
          TorI,      \* Seq of [A (2n x 2n integer, common denominator den), n, den] -> list of (sign, det numerator) per subset
          RankOneI,  \* Seq of [u, v, rows, cols] small non-negative integer vectors: perm(u v^T) = N! prod u^r prod v^c
          MaxTotal   \* multiplicity total for the int64 range theorem
VARIABLE x
Init == x = 0
Next == UNCHANGED x
Spec == Init /\ [][Next]_x

ASSUME \A i \in 1..Len(PermI) :
  PrintT(<<"PERMDEF", ToJson([i |-> i, perm |-> PermDef(PermI[i].A, PermI[i].rows, PermI[i].cols),
                               laplace |-> LaplaceDef(PermI[i].A, PermI[i].rows, PermI[i].lcols)])>>)
ASSUME \A i \in 1..Len(HafI) :
  PrintT(<<"HAFDEF", ToJson([i |-> i, haf |-> HafDef(HafI[i].A, HafI[i].reduce), lhaf |-> LoopHafDef(HafI[i].A, HafI[i].diag, HafI[i].reduce)])>>)
ASSUME \A i \in 1..Len(PfI) : PrintT(<<"PFDEF", ToJson([i |-> i, pf |-> PfDef(PfI[i])])>>)

(* torontonian: sum over subsets Z of modes of (-1)^(n-|Z|) / sqrt(det(I - A_Z)); A = M/den with integer M. *)
(* exported as (|Z|, det(den*I - M_Z)) so that the harness only evaluates 1/sqrt(det / den^(2|Z|)).            *)
SubIdx(Z, n) == LET s == { i \in 1..n : i \in Z } IN
                LET RECURSIVE Sorted(_, _)
                    Sorted(k, acc) == IF k > n THEN acc ELSE Sorted(k + 1, IF k \in Z THEN Append(acc, k) ELSE acc)
                IN Sorted(1, <<>>)
TorTerms(T) == LET n == T.n IN
  [ Z \in SUBSET (1..n) |->
      LET zs == SubIdx(Z, n)
          \* xpxp ordering (documented for the kernel): mode k occupies rows / columns 2k-1 and 2k
          idx == [k \in 1..(2 * Len(zs)) |-> IF k % 2 = 1 THEN 2 * zs[(k + 1) \div 2] - 1 ELSE 2 * zs[k \div 2]]
          B == [r \in 1..(2 * n) |-> [c \in 1..(2 * n) |-> (IF r = c THEN T.den ELSE 0) - T.A[r][c]]]
      IN DetIdx(B, idx, idx) ]
ASSUME \A i \in 1..Len(TorI) :
  PrintT(<<"TORDEF", ToJson([i |-> i, terms |-> [Z \in SUBSET (1..TorI[i].n) |-> <<Cardinality(Z), TorTerms(TorI[i])[Z]>>]])>>)

RECURSIVE BProdPow(_, _, _)
BProdPow(u, r, i) == IF i > Len(u) THEN <<1>> ELSE BMul(BPow(u[i], r[i]), BProdPow(u, r, i + 1))
RECURSIVE SumS(_)
SumS(s) == IF s = <<>> THEN 0 ELSE Head(s) + SumS(Tail(s))
ASSUME \A i \in 1..Len(RankOneI) :
  LET R == RankOneI[i] IN
  PrintT(<<"RANKONE", ToJson([i |-> i, limbs |-> BLimbsMSF(BMul(BFact(SumS(R.rows)), BMul(BProdPow(R.u, R.rows, 1), BProdPow(R.v, R.cols, 1))))])>>)

(* int64 range theorem for the binomial arithmetic of the permanent: for every multiplicity m <= MaxTotal       *)
(* split over <= 3 rows, (prod of central binomials) * MaxTotal < 2^63                                             *)
(* 2^63 = 922|3372|0368|5477|5808 in base 10^4: a trimmed number with fewer than 5 limbs, or 5 limbs and a leading limb below 922, is below it *)
Fits63(p0) == LET p == BTrim(p0) IN Len(p) < 5 \/ (Len(p) = 5 /\ p[5] < 922)
RECURSIVE CentralAcc(_, _)
CentralAcc(m, acc) == IF m > MaxTotal THEN acc ELSE CentralAcc(m + 1, Append(acc, BComb(m, m \div 2)))
Central == CentralAcc(0, <<>>)          \* Central[m + 1] = C(m, floor(m / 2)), evaluated once
Int64Range == LET C == Central IN
              \A a \in 0..MaxTotal : \A b \in 0..(MaxTotal - a) : \A c \in 0..(MaxTotal - a - b) :
                Fits63(BMulS(BMul(C[a + 1], BMul(C[b + 1], C[c + 1])), MaxTotal))
ASSUME PrintT(<<"INT64RANGE", Int64Range>>)
=============================================================================
