------------------------------ MODULE PqProgram ------------------------------
(* C18.  Program construction.                                                           *)
(*  Part "nest":  registering a program inside another maps its modes through the         *)
(*                enclosing register exactly once and leaves the inner program unchanged. *)
(*  Part "trip":  export / load round trips are the identity on (class, modes, params).   *)
(*  Part "prep":  linear combinations of number-state preparations written with +, scalar *)
(*                *, / denote the same superposition whatever the order or grouping.      *)
EXTENDS Naturals, Integers, Sequences, FiniteSets, TLC, Json

CONSTANTS Part, DOuter, InnerProgs, Registers, MaxNest,
          TripInstrs, MaxTripLen,
          Leaves, Scalars, MaxLeaves, MaxOps, Export

(* ============================== nesting ============================== *)
VARIABLES prog, inner0, innerNow, chain, nest
(* prog: the program being built (Seq of [cls, modes]); inner0: the innermost program as written;       *)
(* innerNow: the same object after the registrations (must stay equal to inner0); chain: registers used *)
nvars == <<prog, inner0, innerNow, chain, nest>>

MapModes(reg, ms) == IF reg = <<>> THEN ms ELSE IF ms = <<>> THEN reg ELSE [i \in 1..Len(ms) |-> reg[ms[i] + 1]]
RegisterInto(reg, p) == [i \in 1..Len(p) |-> [cls |-> p[i].cls, modes |-> MapModes(reg, p[i].modes)]]
RegOK(reg, p) == \A i \in 1..Len(p) : \A j \in 1..Len(p[i].modes) : p[i].modes[j] + 1 <= Len(reg) \/ reg = <<>>

NInit == /\ inner0 \in InnerProgs /\ prog = inner0 /\ innerNow = inner0 /\ chain = <<>> /\ nest = 0
(* `with Program() as outer: Q(reg...) | prog` : every instruction of prog is COPIED and its modes are mapped *)
Wrap == /\ nest < MaxNest
        /\ \E reg \in Registers : /\ RegOK(reg, prog)
                                  /\ prog' = RegisterInto(reg, prog)
                                  /\ chain' = Append(chain, reg)
        /\ nest' = nest + 1 /\ UNCHANGED <<inner0, innerNow>>
NNext == Wrap
(* composition law: wrapping with r1 after r2 equals wrapping once with the composed register *)
RECURSIVE ComposeAll(_, _)
ComposeAll(ch, ms) == IF ch = <<>> THEN ms ELSE ComposeAll(Tail(ch), MapModes(Head(ch), ms))
MappedExactlyOnce == \A i \in 1..Len(prog) : prog[i].modes = ComposeAll(chain, inner0[i].modes) /\ prog[i].cls = inner0[i].cls
InnerReusable == innerNow = inner0
NExport == (Export /\ Part = "nest") => PrintT(<<"NEST", ToJson([inner |-> inner0, chain |-> chain, prog |-> prog])>>)

(* ============================== round trips ============================== *)
VARIABLES tprog, tdone
tvars == <<tprog, tdone>>
TInit == tprog = <<>> /\ tdone = FALSE
TAdd == /\ ~tdone /\ Len(tprog) < MaxTripLen /\ \E ins \in TripInstrs : tprog' = Append(tprog, ins) /\ tdone' = FALSE
TNext == TAdd
(* the specification of every export/load pair: identity *)
RoundTrip(p) == p
TripIsIdentity == RoundTrip(tprog) = tprog
TExport == (Export /\ Part = "trip" /\ Len(tprog) >= 1) => PrintT(<<"TRIP", ToJson([prog |-> tprog])>>)

(* ============================== preparation algebra ============================== *)
(* expression trees: leaf i (an occupation vector with amplitude 1), sum, scalar multiple, scalar quotient;    *)
(* scalars are Gaussian rationals <<re_num, im_num, den>>.  Den(tree) is the amplitude map (occupation -> scalar) *)
VARIABLES stack, nleaf, nops
pvars == <<stack, nleaf, nops>>
GCD(a, b) == LET RECURSIVE G(_, _)
                 G(x, y) == IF y = 0 THEN x ELSE G(y, x % y) IN G(a, b)
AbsV(a) == IF a < 0 THEN -a ELSE a
SNorm(s) == LET g == GCD(GCD(AbsV(s[1]), AbsV(s[2])), s[3]) IN IF g <= 1 THEN s ELSE <<s[1] \div g, s[2] \div g, s[3] \div g>>
SAddQ(a, b) == SNorm(<<a[1] * b[3] + b[1] * a[3], a[2] * b[3] + b[2] * a[3], a[3] * b[3]>>)
SMulQ(a, b) == SNorm(<<a[1] * b[1] - a[2] * b[2], a[1] * b[2] + a[2] * b[1], a[3] * b[3]>>)
SInvQ(a) == LET n == a[1] * a[1] + a[2] * a[2] IN SNorm(IF n > 0 THEN <<a[1] * a[3], -a[2] * a[3], n>> ELSE <<0, 0, 1>>)
SZeroQ == <<0, 0, 1>>
RECURSIVE Den(_)
Den(t) == CASE t.k = "leaf" -> [o \in {Leaves[t.i]} |-> <<1, 0, 1>>]
            [] t.k = "add" -> LET a == Den(t.a) b == Den(t.b) IN
                              [o \in DOMAIN a \cup DOMAIN b |-> SAddQ(IF o \in DOMAIN a THEN a[o] ELSE SZeroQ, IF o \in DOMAIN b THEN b[o] ELSE SZeroQ)]
            [] t.k = "mul" -> LET a == Den(t.a) IN [o \in DOMAIN a |-> SMulQ(t.s, a[o])]
            [] t.k = "div" -> LET a == Den(t.a) IN [o \in DOMAIN a |-> SMulQ(SInvQ(t.s), a[o])]
PInit == stack = <<>> /\ nleaf = 0 /\ nops = 0
Top2 == SubSeq(stack, Len(stack) - 1, Len(stack))
PNext == \/ /\ nleaf < MaxLeaves /\ \E i \in 1..Len(Leaves) : stack' = Append(stack, [k |-> "leaf", i |-> i]) /\ nleaf' = nleaf + 1 /\ UNCHANGED nops
         \/ /\ Len(stack) >= 2 /\ stack' = Append(SubSeq(stack, 1, Len(stack) - 2), [k |-> "add", a |-> Top2[1], b |-> Top2[2]]) /\ nops' = nops + 1 /\ nops < MaxOps /\ UNCHANGED nleaf
         \/ /\ Len(stack) >= 1 /\ stack[Len(stack)].k # "mul" /\ stack[Len(stack)].k # "div"
            /\ \E s \in Scalars : \E op \in {"mul", "div", "rmul"} :
                 stack' = Append(SubSeq(stack, 1, Len(stack) - 1), [k |-> (IF op = "div" THEN "div" ELSE "mul"), s |-> s, a |-> stack[Len(stack)], side |-> op])
            /\ nops' = nops + 1 /\ nops < MaxOps /\ UNCHANGED nleaf
(* theorems: + is commutative and associative on denotations, scalars distribute *)
Complete == Len(stack) = 1
AddCommutes == Len(stack) >= 2 => Den([k |-> "add", a |-> Top2[1], b |-> Top2[2]]) = Den([k |-> "add", a |-> Top2[2], b |-> Top2[1]])
ScalarDistributes == Len(stack) >= 2 => \A s \in Scalars :
     Den([k |-> "mul", s |-> s, a |-> [k |-> "add", a |-> Top2[1], b |-> Top2[2]]])
   = Den([k |-> "add", a |-> [k |-> "mul", s |-> s, a |-> Top2[1]], b |-> [k |-> "mul", s |-> s, a |-> Top2[2]]])
AddAssociates == Len(stack) >= 3 =>
   LET x == stack[Len(stack) - 2] y == stack[Len(stack) - 1] z == stack[Len(stack)] IN
   Den([k |-> "add", a |-> [k |-> "add", a |-> x, b |-> y], b |-> z]) = Den([k |-> "add", a |-> x, b |-> [k |-> "add", a |-> y, b |-> z]])
PExport == (Export /\ Part = "prep" /\ Complete /\ nleaf >= 2) =>
   PrintT(<<"PREP", ToJson([tree |-> stack[1], den |-> [o \in DOMAIN Den(stack[1]) |-> Den(stack[1])[o]]])>>)

(* ============================== composition ============================== *)
vars == <<nvars, tvars, pvars>>
Init == NInit /\ TInit /\ PInit
Next == \/ (Part = "nest" /\ NNext /\ UNCHANGED <<tvars, pvars>>)
        \/ (Part = "trip" /\ TNext /\ UNCHANGED <<nvars, pvars>>)
        \/ (Part = "prep" /\ PNext /\ UNCHANGED <<nvars, tvars>>)
Spec == Init /\ [][Next]_vars
=============================================================================
