----------------------------- MODULE PqExprLife -----------------------------
(* C20, safety half.  Grammar (which Python AST node classes an expression   *)
(* string may contain) and life cycle of an expression object:               *)
(*   fresh -parse-> parsed -validate-> accepted -constructed-> ready -eval*  *)
(*                        \-> rejected -raise InvalidExpression-> dead       *)
(* Used (a) by TLC on its own: no evaluation can happen unless the string    *)
(* was accepted; (b) as a trace specification: every recorded construction / *)
(* call of piquasso.core._expressions.Expression must be a behaviour of it,  *)
(* and the implementation's accept/reject decision must equal SpecAccept.    *)
EXTENDS Naturals, Sequences, FiniteSets, TLC, Json, IOUtils

(* Python 3.12 `ast` expression-level node classes *)
NodeKinds == {"Expression", "BoolOp", "NamedExpr", "BinOp", "UnaryOp", "Lambda", "IfExp", "Dict", "Set",
              "ListComp", "SetComp", "DictComp", "GeneratorExp", "Await", "Yield", "YieldFrom", "Compare",
              "Call", "FormattedValue", "JoinedStr", "Constant", "Attribute", "Subscript", "Starred",
              "Name", "List", "Tuple", "Slice", "Load", "Store", "Del",
              "And", "Or", "Add", "Sub", "Mult", "MatMult", "Div", "Mod", "Pow", "LShift", "RShift",
              "BitOr", "BitXor", "BitAnd", "FloorDiv", "Invert", "Not", "UAdd", "USub",
              "Eq", "NotEq", "Lt", "LtE", "Gt", "GtE", "Is", "IsNot", "In", "NotIn",
              "comprehension", "arguments", "arg", "keyword"}

(* numbers, booleans, x, indexing and slicing, arithmetic, comparison, boolean operators, *)
(* tuple / list displays of such                                                            *)
Allowed == {"Expression", "BoolOp", "UnaryOp", "BinOp", "Compare", "Name", "Load", "Subscript", "Slice",
            "Constant", "List", "Tuple",
            "Add", "Sub", "Mult", "Div", "Mod", "Pow", "BitXor",
            "UAdd", "USub", "Not", "And", "Or",
            "Eq", "NotEq", "Lt", "LtE", "Gt", "GtE"}
ASSUME Allowed \subseteq NodeKinds

ConstOK == {"int", "float", "bool"}

SpecAccept(kinds, names, consts) ==
  /\ \A i \in 1..Len(kinds) : kinds[i] \in Allowed
  /\ \A i \in 1..Len(names) : names[i] = "x"
  /\ \A i \in 1..Len(consts) : consts[i] \in ConstOK

CONSTANT TraceFile
Traces == JsonDeserialize(TraceFile)

VARIABLES tid, l, st, nevals
vars == <<tid, l, st, nevals>>

Ev == Traces[tid][l]
More == l <= Len(Traces[tid])

Init == tid \in 1..Len(Traces) /\ l = 1 /\ st = "fresh" /\ nevals = 0

Parse == /\ More /\ Ev.e = "parse" /\ st = "fresh"
         /\ st' = IF Ev.ok THEN "parsed" ELSE "syntaxerr"
         /\ l' = l + 1 /\ UNCHANGED <<tid, nevals>>
Validate == /\ More /\ Ev.e = "validate" /\ st = "parsed"
            /\ Ev.accept = SpecAccept(Ev.kinds, Ev.names, Ev.consts)    \* code's decision = spec's
            /\ st' = IF Ev.accept THEN "accepted" ELSE "rejected"
            /\ l' = l + 1 /\ UNCHANGED <<tid, nevals>>
RaiseInit == /\ More /\ Ev.e = "raise" /\ Ev.phase = "init" /\ st \in {"syntaxerr", "rejected"}
             /\ Ev.cls = "InvalidExpression"
             /\ st' = "dead" /\ l' = l + 1 /\ UNCHANGED <<tid, nevals>>
Constructed == /\ More /\ Ev.e = "constructed" /\ st = "accepted"
               /\ st' = "ready" /\ l' = l + 1 /\ UNCHANGED <<tid, nevals>>
EvalStep == /\ More /\ Ev.e = "eval" /\ st = "ready"
            /\ nevals' = nevals + 1 /\ l' = l + 1 /\ UNCHANGED <<tid, st>>
Next == Parse \/ Validate \/ RaiseInit \/ Constructed \/ EvalStep
Spec == Init /\ [][Next]_vars

NoEvalUnlessAccepted == nevals > 0 => st = "ready"
DeadNeverEvaluated == st \in {"dead", "rejected", "syntaxerr"} => nevals = 0
Report == PrintT(<<"AT", tid, l, Len(Traces[tid])>>)
=============================================================================
