SPECIFICATION MCSpec
CONSTANTS
  NoneShots = 0
  Exact = TRUE
  WUnit = 1
  WTol = 0
  DModes = 3
  MaxLen = 2
  MaxShots = 2
  Faults = TRUE
  WithInvalid = FALSE
  Conds = {"none", "last1", "raise"}
INVARIANT FrameOnEnd
INVARIANT ShotsConserved
INVARIANT NoneWeightsSumToOne
INVARIANT RejectBeforeEvolve
INVARIANT ActiveIsSubsequence
