--------------------------- MODULE MatrixFunctions ---------------------------
(* C04.  Combinatorial DEFINITIONS of the matrix functions over Gaussian      *)
(* integers <<re, im>> (exact): permanent with row / column multiplicities,   *)
(* Laplace-expansion vector, hafnian, loop hafnian (with reduction), Pfaffian.*)
(* Nothing here is transcribed from the implementation.                       *)
EXTENDS Naturals, Integers, Sequences, FiniteSets

CAdd(a, b) == <<a[1] + b[1], a[2] + b[2]>>
CMul(a, b) == <<a[1] * b[1] - a[2] * b[2], a[1] * b[2] + a[2] * b[1]>>
CNeg(a) == <<-a[1], -a[2]>>
CZero == <<0, 0>>
COne == <<1, 0>>
CScale(k, a) == <<k * a[1], k * a[2]>>

RECURSIVE RepIdx(_, _)
(* indices expanded by multiplicity: <<2,0,1>> -> <<1,1,3>> *)
RepIdx(mult, i) == IF i > Len(mult) THEN <<>>
                   ELSE [k \in 1..mult[i] |-> i] \o RepIdx(mult, i + 1)
Expand(mult) == RepIdx(mult, 1)

RemoveAt(s, i) == SubSeq(s, 1, i - 1) \o SubSeq(s, i + 1, Len(s))

(* permanent of the matrix whose rows / columns are A[ri[k]], A[.][ci[l]] : expansion along the first row *)
RECURSIVE PermIdx(_, _, _)
PermIdx(A, ri, ci) ==
  IF Len(ri) = 0 THEN COne
  ELSE LET RECURSIVE Sum(_)
           Sum(j) == IF j > Len(ci) THEN CZero
                     ELSE CAdd(CMul(A[ri[1]][ci[j]], PermIdx(A, Tail(ri), RemoveAt(ci, j))), Sum(j + 1))
       IN Sum(1)

(* permanent with multiplicities (defined when the totals agree) *)
PermDef(A, rows, cols) == PermIdx(A, Expand(rows), Expand(cols))

(* Laplace vector: entry j = permanent with one copy of column j removed (0 where cols[j] = 0) *)
DecAt(s, j) == [s EXCEPT ![j] = s[j] - 1]
LaplaceDef(A, rows, cols) == [j \in 1..Len(cols) |-> IF cols[j] = 0 THEN CZero ELSE PermDef(A, rows, DecAt(cols, j))]

(* hafnian of the matrix indexed by the sequence idx (symmetric A): sum over perfect matchings; *)
(* pair the first index with each later one                                                     *)
RECURSIVE HafIdx(_, _)
HafIdx(A, idx) ==
  IF Len(idx) = 0 THEN COne
  ELSE IF Len(idx) % 2 = 1 THEN CZero
  ELSE LET RECURSIVE Sum(_)
           Sum(j) == IF j > Len(idx) THEN CZero
                     ELSE CAdd(CMul(A[idx[1]][idx[j]], HafIdx(A, RemoveAt(Tail(idx), j - 1))), Sum(j + 1))
       IN Sum(2)
HafDef(A, reduce) == HafIdx(A, Expand(reduce))

(* loop hafnian: matchings that may also contain loops (singletons weighted by diag) *)
RECURSIVE LHafIdx(_, _, _)
LHafIdx(A, diag, idx) ==
  IF Len(idx) = 0 THEN COne
  ELSE LET RECURSIVE Sum(_)
           Sum(j) == IF j > Len(idx) THEN CZero
                     ELSE CAdd(CMul(A[idx[1]][idx[j]], LHafIdx(A, diag, RemoveAt(Tail(idx), j - 1))), Sum(j + 1))
       IN CAdd(CMul(diag[idx[1]], LHafIdx(A, diag, Tail(idx))), Sum(2))
LoopHafDef(A, diag, reduce) == LHafIdx(A, diag, Expand(reduce))

(* Pfaffian of an antisymmetric integer matrix: signed perfect matchings *)
RECURSIVE PfIdx(_, _)
PfIdx(A, idx) ==
  IF Len(idx) = 0 THEN 1
  ELSE IF Len(idx) % 2 = 1 THEN 0
  ELSE LET RECURSIVE Sum(_)
           Sum(j) == IF j > Len(idx) THEN 0
                     ELSE (IF j % 2 = 0 THEN 1 ELSE -1) * A[idx[1]][idx[j]] * PfIdx(A, RemoveAt(Tail(idx), j - 1)) + Sum(j + 1)
       IN Sum(2)
PfDef(A) == PfIdx(A, [i \in 1..Len(A) |-> i])

(* determinant by Laplace expansion (integers) -- used for torontonian closed forms *)
RECURSIVE DetIdx(_, _, _)
DetIdx(A, ri, ci) ==
  IF Len(ri) = 0 THEN 1
  ELSE LET RECURSIVE Sum(_)
           Sum(j) == IF j > Len(ci) THEN 0
                     ELSE (IF j % 2 = 1 THEN 1 ELSE -1) * A[ri[1]][ci[j]] * DetIdx(A, Tail(ri), RemoveAt(ci, j)) + Sum(j + 1)
       IN Sum(1)
=============================================================================
