-------------------------------- MODULE PqFermi --------------------------------
(* C17.  Exact reference semantics of fermionic circuits on d <= 4 modes.                 *)
(* A pure state is a function from occupation sets (bit masks, mode k = bit 2^k) to        *)
(* fractions over Z[sqrt2, i]; |S> = f^dagger_{k1} ... f^dagger_{km} |0> with k1 < ... < km *)
(* (Jordan-Wigner: f^dagger_k |n> = (-1)^(sum_{j<k} n_j) |n + e_k>).                        *)
(* Passive gates act by the substitution f^dagger_i -> SUM_r U[r][i] f^dagger_r followed by *)
(* re-ordering with signs (determinants arise, they are not assumed); the two-mode         *)
(* squeezer and the Ising-XX gate by their documented action on consecutive modes.         *)
(* The Majorana covariance matrix is computed from the state by its definition.            *)
EXTENDS RingQ, FiniteSets, TLC, Json

CONSTANTS D, Inputs,      \* set of input masks
          Gates,          \* Seq of [name, kind \in {"passive","sq2","xx","cphase"}, modes (0-based), U (k x k over RingQ) / c, s (fractions), q]
          MaxDepth, Export
VARIABLES psi, depth, hist
vars == <<psi, depth, hist>>

Masks == 0..(2 ^ D - 1)
Bit(S, k) == (S \div (2 ^ k)) % 2
RECURSIVE Below(_, _)
Below(S, k) == IF k = 0 THEN 0 ELSE Bit(S, k - 1) + Below(S, k - 1)          \* number of occupied modes j < k
Sgn(S, k) == IF Below(S, k) % 2 = 0 THEN Q1 ELSE QInt(-1)
RECURSIVE PopCount(_, _)
PopCount(S, k) == IF k = 0 THEN 0 ELSE Bit(S, k - 1) + PopCount(S, k - 1)
N(S) == PopCount(S, D)

Zero == [S \in Masks |-> Q0]
Basis(S0) == [S \in Masks |-> IF S = S0 THEN Q1 ELSE Q0]
(* creation / annihilation operators on a state (Jordan-Wigner signs) *)
Cr(k, phi) == [T \in Masks |-> IF Bit(T, k) = 1 THEN QMul(Sgn(T - 2 ^ k, k), phi[T - 2 ^ k]) ELSE Q0]
An(k, phi) == [T \in Masks |-> IF Bit(T, k) = 0 THEN QMul(Sgn(T, k), phi[T + 2 ^ k]) ELSE Q0]
AddS(a, b) == [T \in Masks |-> QAdd(a[T], b[T])]
ScaleS(q, a) == [T \in Masks |-> QMul(q, a[T])]
(* force evaluation (TLC builds function constructors lazily) *)
RECURSIVE ForceS(_, _, _)
ForceS(a, T, acc) == IF T > 2 ^ D - 1 THEN acc ELSE ForceS(a, T + 1, Append(acc, a[T]))
Eager(a) == LET s == ForceS(a, 0, <<>>) IN [T \in Masks |-> s[T + 1]]

(* the linear combination SUM_r vec[r] f^dagger_{ms[r]} applied to a state *)
RECURSIVE CrLin(_, _, _, _)
CrLin(vec, ms, r, phi) == IF r > Len(ms) THEN Zero
                          ELSE AddS(ScaleS(vec[r], Cr(ms[r], phi)), CrLin(vec, ms, r + 1, phi))
(* image of the basis state |S>: the creation operators of S (ascending) are applied right to left; an operator *)
(* of a mode outside the gate is unchanged, one of the c-th gate mode becomes column c of U                       *)
PosIn(ms, k) == IF \E c \in 1..Len(ms) : ms[c] = k THEN CHOOSE c \in 1..Len(ms) : ms[c] = k ELSE 0
RECURSIVE ImageFrom(_, _, _, _)
ImageFrom(S, g, k, phi) ==      \* k runs from D-1 down to 0
  IF k < 0 THEN phi
  ELSE IF Bit(S, k) = 0 THEN ImageFrom(S, g, k - 1, phi)
  ELSE LET c == PosIn(g.modes, k)
           nxt == IF c = 0 THEN Cr(k, phi) ELSE CrLin([r \in 1..Len(g.modes) |-> g.U[r][c]], g.modes, 1, phi)
       IN ImageFrom(S, g, k - 1, Eager(nxt))
ImageOf(S, g) == ImageFrom(S, g, D - 1, Basis(0))
RECURSIVE SumImages(_, _, _)
SumImages(S, g, acc) == IF S > 2 ^ D - 1 THEN acc
                        ELSE SumImages(S + 1, g, IF QIsZero(psi[S]) THEN acc ELSE Eager(AddS(acc, ScaleS(psi[S], ImageOf(S, g)))))
ApplyPassive(g) == SumImages(0, g, Zero)

(* Squeezing2 on consecutive modes (i, j = i + 1), documented:  |00> -> c|00> - e^{i phi} s|11>,  |11> -> c|11> + e^{-i phi} s|00> *)
ApplySq2(g) == LET i == g.modes[1] j == g.modes[2] both == 2 ^ i + 2 ^ j IN
  [T \in Masks |->
     IF Bit(T, i) = 0 /\ Bit(T, j) = 0 THEN QAdd(QMul(g.c, psi[T]), QMul(g.sp, psi[T + both]))            \* from |00> and from |11>
     ELSE IF Bit(T, i) = 1 /\ Bit(T, j) = 1 THEN QAdd(QMul(g.c, psi[T]), QMul(g.sm, psi[T - both]))
     ELSE psi[T]]
(* g.sm = - e^{i phi} s  (amplitude created on |11> from |00>),  g.sp = + e^{-i phi} s  (on |00> from |11>) *)

(* Ising XX on consecutive modes: cos(phi) + i sin(phi) X (x) X in the Jordan-Wigner basis: both bits flipped *)
ApplyXX(g) == LET i == g.modes[1] j == g.modes[2]
                  Flip(T) == T + (IF Bit(T, i) = 0 THEN 2 ^ i ELSE -(2 ^ i)) + (IF Bit(T, j) = 0 THEN 2 ^ j ELSE -(2 ^ j)) IN
  [T \in Masks |-> QAdd(QMul(g.c, psi[T]), QMul(QMul(QI, g.s), psi[Flip(T)]))]
(* controlled phase exp(i phi n_i n_j), phi = q pi/2 *)
ApplyCPhase(g) == [T \in Masks |-> IF Bit(T, g.modes[1]) = 1 /\ Bit(T, g.modes[2]) = 1 THEN QMul([n |-> IPowI(g.q), d |-> 1], psi[T]) ELSE psi[T]]

Init == /\ \E S0 \in Inputs : psi = Basis(S0) /\ hist = <<S0>>
        /\ depth = 0
Next == /\ depth < MaxDepth
        /\ \E gi \in 1..Len(Gates) :
             LET g == Gates[gi] IN
             /\ psi' = Eager(CASE g.kind = "passive" -> ApplyPassive(g) [] g.kind = "sq2" -> ApplySq2(g)
                               [] g.kind = "xx" -> ApplyXX(g) [] g.kind = "cphase" -> ApplyCPhase(g))
             /\ hist' = Append(hist, gi) /\ depth' = depth + 1
Spec == Init /\ [][Next]_vars
------------------------------------------------------------------------------
Abs2(x) == QMul(x, QConj(x))
RECURSIVE NormAcc(_, _)
NormAcc(T, acc) == IF T > 2 ^ D - 1 THEN acc ELSE NormAcc(T + 1, QAdd(acc, Abs2(psi[T])))
NormIsOne == QEq(NormAcc(0, Q0), Q1)
(* parity superselection: all occupied basis states have the parity of the input; passive gates conserve the number *)
Support == { T \in Masks : ~QIsZero(psi[T]) }
ParityConserved == \A T \in Support : N(T) % 2 = N(hist[1]) % 2
AllPassive == \A i \in 2..Len(hist) : Gates[hist[i]].kind \in {"passive", "cphase"}
NumberConserved == AllPassive => \A T \in Support : N(T) = N(hist[1])

(* Majorana operators in xpxp order: m_{2k} = f_k + f_k^dagger, m_{2k+1} = -i (f_k - f_k^dagger)   (0-based) *)
Maj(a, phi) == LET k == a \div 2 IN
               IF a % 2 = 0 THEN AddS(An(k, phi), Cr(k, phi))
               ELSE ScaleS(QNeg(QI), AddS(An(k, phi), ScaleS(QInt(-1), Cr(k, phi))))
RECURSIVE InnerAcc(_, _, _, _)
InnerAcc(a, b, T, acc) == IF T > 2 ^ D - 1 THEN acc ELSE InnerAcc(a, b, T + 1, QAdd(acc, QMul(QConj(a[T]), b[T])))
Inner(a, b) == InnerAcc(a, b, 0, Q0)
(* Sigma_ab = -i <[m_a, m_b]> / 2 *)
MajVec(a) == Eager(Maj(a, psi))
Sigma == LET mv == [a \in 0..(2 * D - 1) |-> MajVec(a)] IN
         [a \in 0..(2 * D - 1) |-> [b \in 0..(2 * D - 1) |->
            \* <psi| m_a m_b |psi> = <m_a psi | m_b psi>  (m_a Hermitian)
            QMul([n |-> <<0, 0, -1, 0>>, d |-> 2], QSub(Inner(mv[a], mv[b]), Inner(mv[b], mv[a])))]]
SigmaRealAntisymmetric == LET Sg == Sigma IN \A a, b \in 0..(2 * D - 1) : QIsReal(Sg[a][b]) /\ QEq(Sg[a][b], QNeg(Sg[b][a]))
ExportState == Export =>
  PrintT(<<"FERMI", ToJson([hist |-> hist, psi |-> [T \in Masks |-> psi[T]], sigma |-> [a \in 1..(2 * D) |-> [b \in 1..(2 * D) |-> Sigma[a - 1][b - 1]]]])>>)
=============================================================================
