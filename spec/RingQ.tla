-------------------------------- MODULE RingQ --------------------------------
(* Fractions over R = Z[sqrt2, i]:  [n |-> <<a, b, c, d>>, d |-> positive integer]  =  (a + b sqrt2 + i(c + d sqrt2)) / d  *)
EXTENDS RingR
RECURSIVE GCD2(_, _)
GCD2(a, b) == IF b = 0 THEN a ELSE GCD2(b, a % b)
AbsI(a) == IF a < 0 THEN -a ELSE a
QNorm(n, dd) == LET g == GCD2(GCD2(GCD2(AbsI(n[1]), AbsI(n[2])), GCD2(AbsI(n[3]), AbsI(n[4]))), dd) IN
                IF g <= 1 THEN [n |-> n, d |-> dd] ELSE [n |-> <<n[1] \div g, n[2] \div g, n[3] \div g, n[4] \div g>>, d |-> dd \div g]
Q0 == [n |-> RZero, d |-> 1]
Q1 == [n |-> ROne, d |-> 1]
QI == [n |-> RI, d |-> 1]
QInt(k) == [n |-> RInt(k), d |-> 1]
QFrac(k, m) == QNorm(RInt(k), m)
QAdd(x, y) == IF x.n = RZero THEN y ELSE IF y.n = RZero THEN x
              ELSE LET g == GCD2(x.d, y.d) l == (x.d \div g) * y.d IN
                   QNorm(RAdd(RScale(l \div x.d, x.n), RScale(l \div y.d, y.n)), l)
QNeg(x) == [n |-> RNeg(x.n), d |-> x.d]
QSub(x, y) == QAdd(x, QNeg(y))
QMul(x, y) == IF x.n = RZero \/ y.n = RZero THEN Q0 ELSE QNorm(RMul(x.n, y.n), x.d * y.d)
QConj(x) == [n |-> RConj(x.n), d |-> x.d]
QIsZero(x) == x.n = RZero
QEq(x, y) == QSub(x, y).n = RZero
(* real / imaginary parts as fractions over Z[sqrt2] embedded in R *)
QRe(x) == [n |-> <<x.n[1], x.n[2], 0, 0>>, d |-> x.d]
QIm(x) == [n |-> <<x.n[3], x.n[4], 0, 0>>, d |-> x.d]
QIsReal(x) == x.n[3] = 0 /\ x.n[4] = 0
(* a + b sqrt2 >= 0 for integers a, b *)
SNonNeg(a, b) == IF a >= 0 /\ b >= 0 THEN TRUE ELSE IF a <= 0 /\ b <= 0 THEN FALSE
                 ELSE IF a >= 0 THEN a * a >= 2 * b * b ELSE 2 * b * b >= a * a
(* inverse in the field Q(sqrt2, i):  1/n = conj(n) (p - q sqrt2) / (p^2 - 2 q^2)  with  n conj(n) = p + q sqrt2 *)
QInv(x) == LET n == x.n
               nn == RMul(n, RConj(n))                      \* = <<p, q, 0, 0>>
               g == GCD2(AbsI(nn[1]), AbsI(nn[2]))
               p == nn[1] \div g  q == nn[2] \div g          \* n conj(n) = g (p + q sqrt2)
               den == p * p - 2 * q * q                      \* 1/n = conj(n) (p - q sqrt2) / (g den)
               num == IF q = 0 THEN RConj(n) ELSE RMul(RConj(n), <<p, -q, 0, 0>>)
               dd == IF q = 0 THEN g * p ELSE g * den
               h == GCD2(x.d, AbsI(dd))
           IN IF dd > 0 THEN QNorm(RScale(x.d \div h, num), dd \div h) ELSE QNorm(RScale(-(x.d \div h), num), (-dd) \div h)

(* matrices: Seq of rows *)
MRows(M) == Len(M)
MCols(M) == IF Len(M) = 0 THEN 0 ELSE Len(M[1])
RECURSIVE QDot(_, _, _, _)
QDot(M, N, i, j) == LET RECURSIVE S(_)
                        S(k) == IF k > MCols(M) THEN Q0 ELSE QAdd(QMul(M[i][k], N[k][j]), S(k + 1))
                    IN S(1)
MMul(M, N) == [i \in 1..MRows(M) |-> [j \in 1..MCols(N) |-> QDot(M, N, i, j)]]
MDag(M) == [i \in 1..MCols(M) |-> [j \in 1..MRows(M) |-> QConj(M[j][i])]]
MTr(M) == [i \in 1..MCols(M) |-> [j \in 1..MRows(M) |-> M[j][i]]]
MConj(M) == [i \in 1..MRows(M) |-> [j \in 1..MCols(M) |-> QConj(M[i][j])]]
MAdd(M, N) == [i \in 1..MRows(M) |-> [j \in 1..MCols(M) |-> QAdd(M[i][j], N[i][j])]]
MSub(M, N) == [i \in 1..MRows(M) |-> [j \in 1..MCols(M) |-> QSub(M[i][j], N[i][j])]]
MScale(q, M) == [i \in 1..MRows(M) |-> [j \in 1..MCols(M) |-> QMul(q, M[i][j])]]
MId(n) == [i \in 1..n |-> [j \in 1..n |-> IF i = j THEN Q1 ELSE Q0]]
MZero(n, m) == [i \in 1..n |-> [j \in 1..m |-> Q0]]
MEq(M, N) == \A i \in 1..MRows(M) : \A j \in 1..MCols(M) : QEq(M[i][j], N[i][j])
(* force evaluation of a lazily built matrix (TLC evaluates function constructors lazily and would otherwise  *)
(* re-evaluate a chain of products for every entry)                                                          *)
RECURSIVE ForceRow(_, _, _)
ForceRow(r, j, acc) == IF j > Len(r) THEN acc ELSE ForceRow(r, j + 1, Append(acc, r[j]))
RECURSIVE ForceM(_, _, _)
ForceM(M, i, acc) == IF i > Len(M) THEN acc ELSE ForceM(M, i + 1, Append(acc, ForceRow(M[i], 1, <<>>)))
Force(M) == ForceM(M, 1, <<>>)
=============================================================================
