-------------------------------- MODULE PqQubit --------------------------------
(* C19.  Exact reference semantics of qubit circuits over h, x, y, z, rx, ry, rz, u, p,   *)
(* cz, cx, measure and classically conditioned blocks, on lattice angles: amplitudes are  *)
(* fractions over Z[sqrt2, i]; qubit k is bit 2^k of the basis index.  A measurement is a  *)
(* nondeterministic projection (the state stays unnormalised: its norm is the probability *)
(* of the outcome history), so TLC enumerates every outcome history of every circuit.     *)
EXTENDS RingQ, FiniteSets, TLC, Json

CONSTANTS NQ,            \* number of qubits
          Ops,           \* Seq of [name, qubits (0-based Seq), M (2^k x 2^k over RingQ, row = output index), p (params for the replay)]
          MaxGates,      \* number of gates before the final measurement of all qubits
          MidMeasure,    \* BOOLEAN: allow a mid-circuit measurement followed by conditioned gates
          Export
VARIABLES amp, circ, outs, measured, depth
vars == <<amp, circ, outs, measured, depth>>
(* circ: Seq of [op, cond]  (cond = <<>> or <<qubit, value>>: executed only if that measured qubit gave value)   *)
(* outs: Seq of <<qubit, value>> in measurement order; measured: set of measured qubits                          *)

Idx == 0..(2 ^ NQ - 1)
Bit(S, k) == (S \div (2 ^ k)) % 2
RECURSIVE ForceA(_, _, _)
ForceA(a, T, acc) == IF T > 2 ^ NQ - 1 THEN acc ELSE ForceA(a, T + 1, Append(acc, a[T]))
Eager(a) == LET s == ForceA(a, 0, <<>>) IN [T \in Idx |-> s[T + 1]]

(* local index of basis state T on the gate's qubits (first qubit = least significant bit of the local index) *)
RECURSIVE Local(_, _, _)
Local(T, qs, i) == IF i > Len(qs) THEN 0 ELSE Bit(T, qs[i]) * (2 ^ (i - 1)) + Local(T, qs, i + 1)
RECURSIVE SetLocal(_, _, _, _)
SetLocal(T, qs, v, i) == IF i > Len(qs) THEN T
                         ELSE SetLocal(T - Bit(T, qs[i]) * (2 ^ qs[i]) + ((v \div (2 ^ (i - 1))) % 2) * (2 ^ qs[i]), qs, v, i + 1)
ApplyOp(g, a) == LET k == Len(g.qubits) IN
  [T \in Idx |-> LET r == Local(T, g.qubits, 1)
                     RECURSIVE S(_)
                     S(c) == IF c > 2 ^ k - 1 THEN Q0 ELSE QAdd(QMul(g.M[r + 1][c + 1], a[SetLocal(T, g.qubits, c, 1)]), S(c + 1))
                 IN S(0)]

Init == amp = [T \in Idx |-> IF T = 0 THEN Q1 ELSE Q0] /\ circ = <<>> /\ outs = <<>> /\ measured = {} /\ depth = 0

CondHolds(c) == c = <<>> \/ \E i \in 1..Len(outs) : outs[i] = c
Unmeasured(g) == \A i \in 1..Len(g.qubits) : g.qubits[i] \notin measured
GateA == /\ depth < MaxGates
         /\ \E gi \in 1..Len(Ops) : \E c \in {<<>>} \cup { <<outs[i][1], v>> : i \in 1..Len(outs), v \in {0, 1} } :
              /\ Unmeasured(Ops[gi])
              /\ amp' = IF CondHolds(c) THEN Eager(ApplyOp(Ops[gi], amp)) ELSE amp
              /\ circ' = Append(circ, [op |-> gi, cond |-> c])
         /\ depth' = depth + 1 /\ UNCHANGED <<outs, measured>>
Project(q, v) == [T \in Idx |-> IF Bit(T, q) = v THEN amp[T] ELSE Q0]
Nonzero(a) == \E T \in Idx : ~QIsZero(a[T])
MeasureA(q) == /\ q \notin measured
               /\ \E v \in {0, 1} : /\ Nonzero(Project(q, v))
                                    /\ amp' = Eager(Project(q, v)) /\ outs' = Append(outs, <<q, v>>)
               /\ measured' = measured \cup {q} /\ circ' = Append(circ, [op |-> 0, cond |-> <<q>>])
               /\ UNCHANGED depth
(* a mid-circuit measurement (at most one qubit) may happen after at least one gate; the final phase measures the rest in order *)
Final == depth = MaxGates
Next == \/ (~Final /\ GateA)
        \/ (MidMeasure /\ ~Final /\ depth >= 1 /\ measured = {} /\ \E q \in 0..(NQ - 1) : MeasureA(q))
        \/ (Final /\ \E q \in 0..(NQ - 1) : (\A p \in 0..(q - 1) : p \in measured) /\ MeasureA(q))
Spec == Init /\ [][Next]_vars
------------------------------------------------------------------------------
Abs2(x) == QMul(x, QConj(x))
RECURSIVE NormAcc(_, _)
NormAcc(T, acc) == IF T > 2 ^ NQ - 1 THEN acc ELSE NormAcc(T + 1, QAdd(acc, Abs2(amp[T])))
Weight == NormAcc(0, Q0)
(* unitary gates preserve the norm; projections lower it: the weight of an outcome history is at most one *)
NormOneBeforeMeasurement == outs = <<>> => QEq(Weight, Q1)
(* 0 <= (a + b sqrt2) / d <= 1  (weights of circuits with pi/4 phases contain sqrt2) *)
WeightIsProbability == QIsReal(Weight) /\ SNonNeg(Weight.n[1], Weight.n[2]) /\ SNonNeg(Weight.d - Weight.n[1], -Weight.n[2])
Done == Cardinality(measured) = NQ
ExportEnd == (Export /\ Done) => PrintT(<<"QUBIT", ToJson([circ |-> circ, outs |-> outs, w |-> Weight])>>)
=============================================================================
