------------------------------- MODULE Combi -------------------------------
(* Integer combinatorics shared by the kernel specifications.  Everything is  *)
(* written so that no intermediate leaves TLC's 32-bit integers when the      *)
(* final value fits.                                                          *)
EXTENDS Naturals, Integers, Sequences, FiniteSets

RECURSIVE GCD(_, _)
GCD(a, b) == IF b = 0 THEN a ELSE GCD(b, a % b)

(* Binomial coefficient, multiplicative form with gcd reduction: after step i *)
(* the accumulator is C(n - k + i, i), never larger than the result.          *)
RECURSIVE CombAcc(_, _, _, _)
CombAcc(n, k, i, acc) ==
  IF i > k THEN acc
  ELSE LET num == n - k + i
           g   == GCD(acc, i)
           a1  == acc \div g
           i1  == i \div g
       IN  CombAcc(n, k, i + 1, a1 * (num \div i1))

Comb(n, k) == IF n < 0 \/ k < 0 \/ n < k THEN 0
              ELSE LET kk == IF k < n - k THEN k ELSE n - k IN CombAcc(n, kk, 1, 1)

RECURSIVE SumSeq(_)
SumSeq(s) == IF s = <<>> THEN 0 ELSE Head(s) + SumSeq(Tail(s))

RECURSIVE Fact(_)
Fact(n) == IF n <= 1 THEN 1 ELSE n * Fact(n - 1)

(* All occupation vectors of d modes with exactly n particles (set). *)
RECURSIVE Occ(_, _)
Occ(d, n) == IF d = 0 THEN (IF n = 0 THEN {<<>>} ELSE {})
             ELSE UNION { { <<k>> \o r : r \in Occ(d - 1, n - k) } : k \in 0..n }

(* v strictly before w in anti-lexicographic order (same length): first      *)
(* differing entry is larger in v.                                             *)
RECURSIVE LexGreater(_, _)
LexGreater(v, w) == IF v = <<>> THEN FALSE
                    ELSE IF Head(v) # Head(w) THEN Head(v) > Head(w)
                    ELSE LexGreater(Tail(v), Tail(w))

(* Declarative position of v in the truncated Fock basis: number of vectors   *)
(* that come before it (lower particle number, or same number and lexico-     *)
(* graphically greater).                                                       *)
DeclSubRank(v) == Cardinality({ u \in Occ(Len(v), SumSeq(v)) : LexGreater(u, v) })
DeclBase(d, n) == LET S == { k \in 0..(n - 1) : TRUE } IN
                  IF n = 0 THEN 0 ELSE SumSeq([k \in 1..n |-> Cardinality(Occ(d, k - 1))])
DeclRank(v)    == DeclBase(Len(v), SumSeq(v)) + DeclSubRank(v)

(* Combinatorial number system: closed forms promised by the documentation.   *)
Dim(d, c)  == Comb(d + c - 1, d)          \* size of the cutoff-c basis on d modes
SecDim(d, n) == Comb(d + n - 1, n)        \* size of the n-particle sector
RECURSIVE RankAcc(_, _, _, _, _)
RankAcc(v, i, upto, s, acc) ==            \* i = 0.. ; uses v[Len(v) - i]
  IF i >= upto THEN acc
  ELSE LET s1 == s + v[Len(v) - i] IN RankAcc(v, i + 1, upto, s1, acc + Comb(s1 + i, i + 1))
Rank(v)    == RankAcc(v, 0, Len(v), 0, 0)
SubRank(v) == RankAcc(v, 0, Len(v) - 1, 0, 0)

(* Fermionic: subsets of 0..d-1 as strictly increasing sequences              *)
(* ("first quantised"), ordered by size, then lexicographically ascending.    *)
RECURSIVE IncSeqs(_, _, _)
IncSeqs(lo, d, k) == IF k = 0 THEN {<<>>}
                     ELSE UNION { { <<m>> \o r : r \in IncSeqs(m + 1, d, k - 1) } : m \in lo..(d - 1) }
RECURSIVE LexLess(_, _)
LexLess(v, w) == IF v = <<>> THEN FALSE
                 ELSE IF Head(v) # Head(w) THEN Head(v) < Head(w)
                 ELSE LexLess(Tail(v), Tail(w))
FDeclSubRank(fq, d) == Cardinality({ u \in IncSeqs(0, d, Len(fq)) : LexLess(u, fq) })
FDeclBase(d, k) == IF k = 0 THEN 0 ELSE SumSeq([j \in 1..k |-> Comb(d, j - 1)])
FDeclRank(fq, d) == FDeclBase(d, Len(fq)) + FDeclSubRank(fq, d)
ToOcc(fq, d) == [m \in 1..d |-> IF \E j \in 1..Len(fq) : fq[j] = m - 1 THEN 1 ELSE 0]
=============================================================================
