------------------------------- MODULE BigNat -------------------------------
(* Natural numbers beyond TLC's 32-bit integers: little-endian limbs base 10^4. *)
EXTENDS Naturals, Sequences, TLC
Base == 10000
BN(n) == IF n < Base THEN <<n>> ELSE <<n % Base, n \div Base>>      \* n < 10^8
RECURSIVE BAddC(_, _, _)
BAddC(a, b, c) ==
  IF a = <<>> /\ b = <<>> THEN (IF c = 0 THEN <<>> ELSE <<c>>)
  ELSE LET x == (IF a = <<>> THEN 0 ELSE Head(a)) + (IF b = <<>> THEN 0 ELSE Head(b)) + c IN
       <<x % Base>> \o BAddC(IF a = <<>> THEN <<>> ELSE Tail(a), IF b = <<>> THEN <<>> ELSE Tail(b), x \div Base)
BAdd(a, b) == BAddC(a, b, 0)
RECURSIVE BMulSC(_, _, _)
BMulSC(a, k, c) ==      \* k < 10^4
  IF a = <<>> THEN (IF c = 0 THEN <<>> ELSE IF c < Base THEN <<c>> ELSE <<c % Base, c \div Base>>)
  ELSE LET x == Head(a) * k + c IN <<x % Base>> \o BMulSC(Tail(a), k, x \div Base)
BMulS(a, k) == IF k = 0 THEN <<0>> ELSE BMulSC(a, k, 0)
RECURSIVE BMul(_, _)
BMul(a, b) == IF b = <<>> THEN <<>> ELSE BAdd(BMulS(a, Head(b)), <<0>> \o BMul(a, Tail(b)))
RECURSIVE BTrim(_)
BTrim(a) == IF Len(a) > 1 /\ a[Len(a)] = 0 THEN BTrim(SubSeq(a, 1, Len(a) - 1)) ELSE a
RECURSIVE BFact(_)
BFact(n) == IF n <= 1 THEN <<1>> ELSE BMulS(BFact(n - 1), n)
RECURSIVE BPow(_, _)
BPow(k, e) == IF e = 0 THEN <<1>> ELSE BMulS(BPow(k, e - 1), k)
(* binomial by Pascal's rule on limbs *)
RECURSIVE NextRowAcc(_, _, _)
(* built with Append so that every entry is an evaluated value (a lazily evaluated function constructor would *)
(* re-evaluate the whole triangle for every entry)                                                            *)
NextRowAcc(row, k, acc) == IF k > Len(row) + 1 THEN acc
                           ELSE NextRowAcc(row, k + 1, Append(acc, IF k = 1 \/ k = Len(row) + 1 THEN <<1>> ELSE BAdd(row[k - 1], row[k])))
NextRow(row) == NextRowAcc(row, 1, <<>>)
RECURSIVE BRowIter(_, _, _)
BRowIter(i, n, row) == IF i = n THEN row ELSE BRowIter(i + 1, n, NextRow(row))
BCombRow(n) == BRowIter(0, n, << <<1>> >>)
BComb(n, k) == BCombRow(n)[k + 1]
(* comparison a < b *)
RECURSIVE BLessR(_, _, _)
BLessR(a, b, i) == IF i = 0 THEN FALSE ELSE IF a[i] # b[i] THEN a[i] < b[i] ELSE BLessR(a, b, i - 1)
BLess(a0, b0) == LET tA == BTrim(a0) tB == BTrim(b0) IN
                 IF Len(tA) # Len(tB) THEN Len(tA) < Len(tB) ELSE BLessR(tA, tB, Len(tA))
(* decimal digits as a string-free sequence of limbs, most significant first (for export) *)
BLimbsMSF(a) == LET t == BTrim(a) IN [i \in 1..Len(t) |-> t[Len(t) + 1 - i]]
=============================================================================
