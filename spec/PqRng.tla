-------------------------------- MODULE PqRng --------------------------------
(* C11.  Who owns which random stream.  A draw is identified by                *)
(* <<stream seed, position>>: equal identifiers = equal random numbers.        *)
(* Streams: the process-global `random` module (re-seeded by every             *)
(* Config(seed_sequence=...) -- what the code does), the generator of a Config *)
(* (shared with its copies) and per-shot generators default_rng(seed + idx).   *)
(* Scenario: two freshly created simulators with the same seed execute the     *)
(* same sampling program; in between, the rest of the process may draw from /  *)
(* re-seed the global generator and create other Configs (any interleaving).   *)
EXTENDS Naturals, Sequences, TLC, Json

CONSTANTS Kinds,        \* subset of {"global", "cfgrng", "pershot"}: which stream the sampler of the program uses
          Seed,         \* the user's seed
          OtherSeeds,   \* seeds used by unrelated Configs / re-seeding
          Shots,        \* set of shot counts
          MaxOther,     \* bound on foreign actions
          UnseededSeed, \* stands for the os.urandom seed of an unseeded Config
          Export

VARIABLES kind, shots,
          g,            \* global stream [seed, pos]
          cfg,          \* Seq of config streams [seed, pos] (index = config id); copies share the entry
          run,          \* 1 | 2 : which of the two runs is in progress
          st,           \* "new" | "configured" | "ready" | "done"
          mycfg,        \* config id of the current run's simulator
          out,          \* <<out1, out2>> : draw identifiers consumed by each execution
          nother,
          hist          \* action history (for the replay)
vars == <<kind, shots, g, cfg, run, st, mycfg, out, nother, hist>>

Init == /\ kind \in Kinds /\ shots \in Shots
        /\ g = [seed |-> 0, pos |-> 0] /\ cfg = <<>> /\ run = 1 /\ st = "new" /\ mycfg = 0
        /\ out = << <<>>, <<>> >> /\ nother = 0 /\ hist = <<>>

(* Config(seed_sequence=s): new generator AND random.seed(s) *)
MkConfig(s) == /\ cfg' = Append(cfg, [seed |-> s, pos |-> 0])
               /\ g' = [seed |-> s, pos |-> 0]

NewConfig == /\ st = "new" /\ MkConfig(Seed) /\ mycfg' = Len(cfg) + 1 /\ st' = "configured"
             /\ hist' = Append(hist, [a |-> "NewConfig", run |-> run, seed |-> Seed])
             /\ UNCHANGED <<kind, shots, run, out, nother>>
(* the seed may also be given later through the public attribute: Config() then  config.seed_sequence = Seed ,  *)
(* which re-creates the generator(s) of that Config (and re-seeds the global one)                              *)
NewConfigUnseeded == /\ st = "new" /\ MkConfig(UnseededSeed) /\ mycfg' = Len(cfg) + 1 /\ st' = "unseeded"
                     /\ hist' = Append(hist, [a |-> "NewConfigUnseeded", run |-> run, seed |-> 0])
                     /\ UNCHANGED <<kind, shots, run, out, nother>>
SetSeed == /\ st = "unseeded" /\ cfg' = [cfg EXCEPT ![mycfg] = [seed |-> Seed, pos |-> 0]] /\ g' = [seed |-> Seed, pos |-> 0]
           /\ st' = "configured"
           /\ hist' = Append(hist, [a |-> "SetSeed", run |-> run, seed |-> Seed])
           /\ UNCHANGED <<kind, shots, run, mycfg, out, nother>>
(* Simulator(config=c): config.copy() keeps the same generator object *)
NewSim == /\ st = "configured" /\ st' = "ready"
          /\ hist' = Append(hist, [a |-> "NewSim", run |-> run, seed |-> 0])
          /\ UNCHANGED <<kind, shots, g, cfg, run, mycfg, out, nother>>

Draws(seed, pos, n) == [i \in 1..n |-> <<seed, pos + i - 1>>]
Exec ==
  /\ st = "ready"
  /\ LET o == CASE kind = "global" -> Draws(g.seed, g.pos, shots)
                [] kind = "cfgrng" -> Draws(cfg[mycfg].seed, cfg[mycfg].pos, shots)
                [] kind = "pershot" -> [i \in 1..shots |-> <<cfg[mycfg].seed + i - 1, 0>>]
     IN /\ out' = [out EXCEPT ![run] = o]
        /\ g' = IF kind = "global" THEN [g EXCEPT !.pos = g.pos + shots] ELSE g
        /\ cfg' = IF kind = "cfgrng" THEN [cfg EXCEPT ![mycfg].pos = cfg[mycfg].pos + shots] ELSE cfg
  /\ st' = "done"
  /\ hist' = Append(hist, [a |-> "Exec", run |-> run, seed |-> 0])
  /\ UNCHANGED <<kind, shots, run, mycfg, nother>>
NextRun == /\ st = "done" /\ run = 1 /\ run' = 2 /\ st' = "new" /\ mycfg' = 0
           /\ hist' = Append(hist, [a |-> "NextRun", run |-> 2, seed |-> 0])
           /\ UNCHANGED <<kind, shots, g, cfg, out, nother>>

(* what the rest of the process may do at any time *)
Other == /\ nother < MaxOther /\ st \in {"configured", "ready"} /\ nother' = nother + 1
         /\ \/ /\ g' = [g EXCEPT !.pos = g.pos + 1] /\ UNCHANGED cfg                 \* random.random()
               /\ hist' = Append(hist, [a |-> "GlobalDraw", run |-> run, seed |-> 0])
            \/ \E s \in OtherSeeds : /\ g' = [seed |-> s, pos |-> 0] /\ UNCHANGED cfg   \* random.seed(s)
                                     /\ hist' = Append(hist, [a |-> "GlobalSeed", run |-> run, seed |-> s])
            \/ \E s \in OtherSeeds : /\ MkConfig(s)                                   \* an unrelated Config
                                     /\ hist' = Append(hist, [a |-> "OtherConfig", run |-> run, seed |-> s])
         /\ UNCHANGED <<kind, shots, run, st, mycfg, out>>

Next == NewConfig \/ NewConfigUnseeded \/ SetSeed \/ NewSim \/ Exec \/ NextRun \/ Other
Spec == Init /\ [][Next]_vars
------------------------------------------------------------------------------
Finished == run = 2 /\ st = "done"
(* two fresh simulators with the same seed return identical samples whatever else the process did *)
Reproducible == Finished => out[1] = out[2]
(* no random number is consumed twice within one execution *)
NoDrawUsedTwice == \A r \in 1..2 : \A i, j \in 1..Len(out[r]) : i # j => out[r][i] # out[r][j]
(* a simulation only consumes streams derived from its own seed *)
OwnStreamsOnly == \A r \in 1..2 : \A i \in 1..Len(out[r]) : out[r][i][1] \in Seed..(Seed + 16)
ExportEnd == (Export /\ Finished) => PrintT(<<"RNG", ToJson([kind |-> kind, shots |-> shots, hist |-> hist, same |-> (out[1] = out[2])])>>)
=============================================================================
