------------------------------ MODULE RankEval ------------------------------
(* Evaluates the specification's Rank / SubRank / Dim on vectors supplied by *)
(* the harness (random large occupation vectors whose index fits 31 bits).   *)
EXTENDS Combi, TLC, Json
CONSTANT Vecs
VARIABLE x
Init == x = 0
Next == UNCHANGED x
Spec == Init /\ [][Next]_x
ASSUME \A i \in 1..Len(Vecs) :
  PrintT(<<"RANK", ToJson([i |-> i, rank |-> Rank(Vecs[i]), sub |-> SubRank(Vecs[i])])>>)
=============================================================================
