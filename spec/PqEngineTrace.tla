--------------------------- MODULE PqEngineTrace ---------------------------
(* Trace specification: every recorded execution of Simulator.execute_instructions *)
(* (harness drivers, fault-injection runs, the repository's own tests) must be a   *)
(* behaviour of PqEngine; every PqEngine invariant is evaluated after every event. *)
(* Batch of traces in one JSON file (env TRACE_FILE): Traces[tid] = <<event,...>>. *)
EXTENDS PqEngine, Json, IOUtils

CONSTANT TraceFile
Traces == JsonDeserialize(TraceFile)

VARIABLES tid, l
tvars == <<vars, tid, l>>

Ev == Traces[tid][l]
More == l <= Len(Traces[tid])
Is(e) == More /\ Ev.e = e
Adv == l' = l + 1 /\ tid' = tid
Stay == l' = l /\ tid' = tid

B0 == Traces[tid][1]          \* the "begin" event
TInit ==
  /\ tid \in 1..Len(Traces) /\ l = 2
  /\ prog = B0.prog /\ simd = B0.simd /\ shots = B0.shots /\ stateOK = B0.stateOK
  /\ phase = "idle" /\ d = 0 /\ pc = 0 /\ stage = "begin" /\ bidx = 1 /\ active = <<>>
  /\ branches = <<>> /\ newb = <<>> /\ stored = [i \in 1..Len(B0.prog) |-> B0.prog[i].modes]
  /\ resolved = {} /\ exc = "" /\ nsteps = 0

(* up-front phase: not logged individually; taken silently as long as the spec does not fail, *)
(* or when the trace ends in a failure the spec predicts with the same exception class          *)
TCheckShots == CheckShots /\ (phase' = "failed" => (Is("end") /\ Ev.status = "failed" /\ Ev.exc = exc')) /\ Stay
TValidateAll == ValidateAll /\ (phase' = "failed" => (Is("end") /\ Ev.status = "failed" /\ Ev.exc = exc')) /\ Stay

(* up-front parameter validation: one "validate" event per resolved instruction before anything runs *)
TUpfront == Is("validate") /\ UpfrontParam(Ev.ok, Ev.exc) /\ Adv
TValidateState == ~Is("validate") /\ ValidateState
                  /\ (phase' = "failed" => (Is("end") /\ Ev.status = "failed" /\ Ev.exc = exc')) /\ Stay

(* "ibegin": entry of _apply_instruction_to_branches; the logged modes are the remapped ones *)
TInstrBegin ==
  \/ /\ Is("ibegin") /\ ~InstrBeginFails /\ InstrBegin /\ Ev.i = pc /\ Ev.remapped = stored'[pc] /\ Adv
  \/ /\ InstrBeginFails /\ Is("end") /\ Ev.status = "failed" /\ InstrBegin /\ Ev.exc = exc' /\ Stay
TNoneCheck == NoneCheck /\ (phase' = "failed" => (Is("end") /\ Ev.status = "failed" /\ Ev.exc = exc')) /\ Stay

TCond == Is("cond") /\ Ev.i = pc /\ Ev.b = bidx /\ CondEval(Ev.v) /\ Adv
TResolve == Is("resolve") /\ Resolve(Ev.ok) /\ Adv
(* _validate is only called when config.validate is on: silent success otherwise *)
TValidate == \/ Is("validate") /\ ValidateParams(Ev.ok, Ev.exc) /\ Adv
             \/ ~Is("validate") /\ ValidateParams(TRUE, "") /\ Stay

FixMerge(b, s) == [o |-> b.o \o s.o,
                   k |-> (IF Cur.kind = "meas" THEN s.k ELSE b.k),
                   wn |-> (IF Cur.kind = "meas" THEN (b.wn * s.wn + (WUnit \div 2)) \div WUnit ELSE b.wn),
                   wd |-> WUnit]
TStep ==
  /\ Is("step")
  /\ IF Ev.ok
     THEN /\ Ev.cur_shots = (IF shots = NoneShots THEN -1 ELSE branches[bidx].k)    \* shots handed to the step
          /\ Ev.exact                                                                \* frequencies are exact Fractions k_i / k
          /\ Step(Ev.subs, [i \in 1..Len(Ev.subs) |-> FixMerge(branches[bidx], Ev.subs[i])], <<Ev.norm, WUnit>>, TRUE, "")
     ELSE Step(<<>>, <<>>, <<1, 1>>, FALSE, Ev.exc)
  /\ Adv
TUnresolve == \/ Is("unresolve") /\ Unresolve /\ Adv
              \/ Is("unresolve") /\ phase = "failed" /\ Adv /\ UNCHANGED vars     \* clean-up on the error path

BranchesMatch(logged, mine) ==
  /\ Len(logged) = Len(mine)
  /\ \A i \in 1..Len(mine) :
       /\ logged[i].o = mine[i].o
       /\ IF shots = NoneShots THEN Abs(logged[i].wn - mine[i].wn) <= WTol
          ELSE logged[i].k = mine[i].k /\ logged[i].exact
TInstrEnd == Is("iend") /\ Ev.i = pc /\ InstrEnd /\ BranchesMatch(Ev.branches, branches') /\ Adv

(* the final event: status, frame (C12) and the Result's accounting (C03) *)
FrameMatches == Ev.stored = stored /\ { Ev.resolved[i] : i \in 1..Len(Ev.resolved) } = resolved
TEndDone == /\ Is("end") /\ Ev.status = "done" /\ Finish /\ FrameMatches
            /\ (shots # NoneShots => (Ev.nsamples = shots /\ (Ev.counts_sum = -1 \/ Ev.counts_sum = shots)))
            /\ Adv
TEndFailed == /\ Is("end") /\ Ev.status = "failed" /\ phase = "failed" /\ Ev.exc = exc /\ FrameMatches
              /\ Adv /\ UNCHANGED vars

TNext == \/ TCheckShots \/ TValidateAll \/ TUpfront \/ TValidateState \/ TInstrBegin \/ TNoneCheck \/ TCond \/ TResolve \/ TValidate
         \/ TStep \/ TUnresolve \/ TInstrEnd \/ TEndDone \/ TEndFailed
TSpec == TInit /\ [][TNext]_tvars

Report == PrintT(<<"AT", tid, l, Len(Traces[tid])>>)
=============================================================================
