------------------------------- MODULE PqExpr -------------------------------
(* C20.  Reference semantics of the condition / parameter expression language *)
(* (piquasso.core._expressions.Expression) = the fragment of Python it claims *)
(* to implement.  ASTs are built by a stack machine so that TLC enumerates    *)
(* (exhaustively / by simulation) all well-formed expressions; every AST is    *)
(* printed as source text by a minimal-parenthesis printer (so precedence and  *)
(* associativity are part of what is checked) together with its value for      *)
(* every outcome tuple.  Values encode CPython's int/bool/float/tuple/list     *)
(* semantics; floats are dyadic rationals (exact in binary floating point).    *)
(* Anything the model does not cover evaluates to Skip and is not compared.    *)
EXTENDS Naturals, Integers, Sequences, FiniteSets, TLC, Json, SequencesExt

CONSTANTS MaxTok,       \* maximal number of postfix tokens of an expression
          XLen,         \* maximal length of the outcome tuple
          XVals,        \* alphabet of outcomes
          Rich          \* BOOLEAN: larger leaf/operator vocabulary (simulation) vs small (exhaustive)

-----------------------------------------------------------------------------
(* Values *)
I(n)  == [t |-> "int", n |-> n, d |-> 1]
B(b)  == [t |-> "bool", n |-> IF b THEN 1 ELSE 0, d |-> 1]
RECURSIVE NormF(_, _)
NormF(n, d) == IF d > 1 /\ n % 2 = 0 THEN NormF(n \div 2, d \div 2) ELSE [t |-> "float", n |-> n, d |-> d]
Fl(n, d) == NormF(n, d)
Tup(e) == [t |-> "tup", e |-> e]
Lst(e) == [t |-> "list", e |-> e]
Err(c) == [t |-> "err", c |-> c]
Skip   == [t |-> "skip"]

IsNum(v) == v.t \in {"int", "bool", "float"}
IsIntLike(v) == v.t \in {"int", "bool"}
IsSeq(v) == v.t \in {"tup", "list"}
IsErr(v) == v.t = "err"
IsSkip(v) == v.t = "skip"
Abs(a) == IF a < 0 THEN -a ELSE a
Big == 20000
Small(v) == Abs(v.n) <= Big /\ v.d <= 1024
Sign(a) == IF a < 0 THEN -1 ELSE IF a > 0 THEN 1 ELSE 0

Truthy(v) == IF IsNum(v) THEN v.n # 0 ELSE Len(v.e) > 0

(* result of an arithmetic operation on numbers: float if any operand is float *)
MkNum(isFloat, n, d) == IF isFloat THEN Fl(n, d) ELSE I(n)

(* floor division of integers a by positive b *)
FloorDiv(a, b) == IF a >= 0 THEN a \div b ELSE -((-a + b - 1) \div b)
(* Python's a mod b for integers, b # 0: result has the sign of b *)
PyMod(a, b) == IF b > 0 THEN a - b * FloorDiv(a, b)
               ELSE -((-a) - (-b) * FloorDiv(-a, -b))

RECURSIVE IPow(_, _)
IPow(a, k) == IF k = 0 THEN 1 ELSE a * IPow(a, k - 1)
IsPow2(n) == n \in {1, 2, 4, 8, 16, 32, 64, 128, 256, 512, 1024}

RECURSIVE OddPart(_)
OddPart(m) == IF m % 2 = 0 THEN OddPart(m \div 2) ELSE m
RECURSIVE Xor(_, _)
Xor(a, b) == IF a = 0 /\ b = 0 THEN 0
             ELSE (((a % 2) + (b % 2)) % 2) + 2 * Xor(a \div 2, b \div 2)

NumBin(op, v, w) ==
  LET fl == v.t = "float" \/ w.t = "float" IN
  IF ~Small(v) \/ ~Small(w) THEN Skip
  ELSE CASE op = "+" -> MkNum(fl, v.n * w.d + w.n * v.d, v.d * w.d)
         [] op = "-" -> MkNum(fl, v.n * w.d - w.n * v.d, v.d * w.d)
         [] op = "*" -> MkNum(fl, v.n * w.n, v.d * w.d)
         [] op = "/" -> IF w.n = 0 THEN Err("ZeroDivisionError")
                        ELSE LET num == v.n * w.d * Sign(w.n)  den == v.d * Abs(w.n) IN
                             \* reduce by the odd part: only dyadic results are modelled
                             LET o == OddPart(den) IN
                             IF num % o # 0 THEN Skip
                             ELSE IF (den \div o) > 1024 THEN Skip ELSE Fl(num \div o, den \div o)
         [] op = "%" -> IF w.n = 0 THEN Err("ZeroDivisionError")
                        ELSE LET a == v.n * w.d  b == w.n * v.d  dd == v.d * w.d IN
                             MkNum(fl, PyMod(a, b), dd)
         [] op = "**" -> IF ~IsIntLike(w) THEN Skip            \* non-integer exponents: not modelled
                         ELSE IF Abs(w.n) > 6 \/ Abs(v.n) > 12 \/ v.d > 4 THEN Skip
                         ELSE IF w.n >= 0 THEN MkNum(fl, IPow(v.n, w.n), IPow(v.d, w.n))
                         ELSE IF v.n = 0 THEN Err("ZeroDivisionError")
                         ELSE \* negative exponent: float result (d/n)^k ; needs |n| a power of two
                              IF ~IsPow2(Abs(v.n)) THEN Skip
                              ELSE LET k == -w.n  sg == IF v.n < 0 /\ k % 2 = 1 THEN -1 ELSE 1 IN
                                   IF IPow(Abs(v.n), k) > 1024 THEN Skip
                                   ELSE Fl(sg * IPow(v.d, k), IPow(Abs(v.n), k))
         [] op = "^" -> IF fl THEN Err("TypeError")
                        ELSE IF v.n < 0 \/ w.n < 0 \/ v.n > 15 \/ w.n > 15 THEN Skip
                        ELSE IF v.t = "bool" /\ w.t = "bool" THEN B(Xor(v.n, w.n) = 1)
                                ELSE I(Xor(v.n, w.n))

RECURSIVE Repeat(_, _)
Repeat(e, k) == IF k <= 0 THEN <<>> ELSE e \o Repeat(e, k - 1)

BinVal(op, v, w) ==
  IF IsErr(v) THEN v ELSE IF IsSkip(v) THEN Skip
  ELSE IF IsErr(w) THEN w ELSE IF IsSkip(w) THEN Skip
  ELSE IF IsNum(v) /\ IsNum(w) THEN NumBin(op, v, w)
  ELSE IF op = "+" /\ IsSeq(v) /\ IsSeq(w) /\ v.t = w.t THEN
          (IF Len(v.e) + Len(w.e) > 8 THEN Skip ELSE [t |-> v.t, e |-> v.e \o w.e])
  ELSE IF op = "*" /\ IsSeq(v) /\ IsIntLike(w) THEN
          (IF w.n > 4 \/ Len(v.e) * (IF w.n > 0 THEN w.n ELSE 0) > 8 THEN Skip ELSE [t |-> v.t, e |-> Repeat(v.e, w.n)])
  ELSE IF op = "*" /\ IsIntLike(v) /\ IsSeq(w) THEN
          (IF v.n > 4 \/ Len(w.e) * (IF v.n > 0 THEN v.n ELSE 0) > 8 THEN Skip ELSE [t |-> w.t, e |-> Repeat(w.e, v.n)])
  ELSE Err("TypeError")

UnVal(op, v) ==
  IF IsErr(v) THEN v ELSE IF IsSkip(v) THEN Skip
  ELSE IF op = "not" THEN B(~Truthy(v))
  ELSE IF ~IsNum(v) THEN Err("TypeError")
  ELSE IF op = "-" THEN MkNum(v.t = "float", -v.n, v.d)
  ELSE MkNum(v.t = "float", v.n, v.d)        \* unary plus: bool becomes int

RECURSIVE ValEq(_, _)
ValEq(v, w) ==
  IF IsNum(v) /\ IsNum(w) THEN v.n * w.d = w.n * v.d
  ELSE IF IsSeq(v) /\ IsSeq(w) /\ v.t = w.t THEN
       Len(v.e) = Len(w.e) /\ \A i \in 1..Len(v.e) : ValEq(v.e[i], w.e[i])
  ELSE FALSE

(* ordering: returns "lt" | "eq" | "gt" | "type" (TypeError) *)
RECURSIVE Order(_, _)
Order(v, w) ==
  IF IsNum(v) /\ IsNum(w) THEN
       (IF v.n * w.d < w.n * v.d THEN "lt" ELSE IF v.n * w.d = w.n * v.d THEN "eq" ELSE "gt")
  ELSE IF IsSeq(v) /\ IsSeq(w) /\ v.t = w.t THEN
       LET m == IF Len(v.e) < Len(w.e) THEN Len(v.e) ELSE Len(w.e)
           D == { i \in 1..m : ~ValEq(v.e[i], w.e[i]) } IN
       IF D = {} THEN (IF Len(v.e) < Len(w.e) THEN "lt" ELSE IF Len(v.e) = Len(w.e) THEN "eq" ELSE "gt")
       ELSE LET j == CHOOSE i \in D : \A k \in D : i <= k IN Order(v.e[j], w.e[j])
  ELSE "type"

CmpVal(op, v, w) ==     \* v, w proper values; returns B(..) or Err
  IF op = "==" THEN B(ValEq(v, w))
  ELSE IF op = "!=" THEN B(~ValEq(v, w))
  ELSE LET o == Order(v, w) IN
       IF o = "type" THEN Err("TypeError")
       ELSE CASE op = "<"  -> B(o = "lt")
              [] op = "<=" -> B(o \in {"lt", "eq"})
              [] op = ">"  -> B(o = "gt")
              [] op = ">=" -> B(o \in {"gt", "eq"})

(* normalise an index / slice exactly as CPython does for a sequence of length n *)
IdxVal(s, i) ==
  IF IsErr(s) THEN s ELSE IF IsSkip(s) THEN Skip
  ELSE IF IsErr(i) THEN i ELSE IF IsSkip(i) THEN Skip
  ELSE IF ~IsSeq(s) THEN Err("TypeError")
  ELSE IF ~IsIntLike(i) THEN Err("TypeError")
  ELSE LET n == Len(s.e)  j == IF i.n < 0 THEN i.n + n ELSE i.n IN
       IF j < 0 \/ j >= n THEN Err("IndexError") ELSE s.e[j + 1]

NoneV == [t |-> "none"]
SliceBoundOk(b) == b.t = "none" \/ IsIntLike(b)

RECURSIVE Take(_, _, _, _)
Take(e, cur, stop, step) ==       \* indices are 0-based, already clamped
  IF (step > 0 /\ cur >= stop) \/ (step < 0 /\ cur <= stop) THEN <<>>
  ELSE <<e[cur + 1]>> \o Take(e, cur + step, stop, step)

SliceVal(s, lo, hi, st) ==
  IF IsErr(s) THEN s ELSE IF IsSkip(s) THEN Skip
  ELSE IF lo.t = "err" THEN lo ELSE IF lo.t = "skip" THEN Skip
  ELSE IF hi.t = "err" THEN hi ELSE IF hi.t = "skip" THEN Skip
  ELSE IF st.t = "err" THEN st ELSE IF st.t = "skip" THEN Skip
  ELSE IF ~IsSeq(s) THEN Err("TypeError")
  \* CPython (PySlice_Unpack) converts the step first (TypeError, then ValueError for 0), then start and stop
  ELSE IF ~SliceBoundOk(st) THEN Err("TypeError")
  ELSE LET n == Len(s.e)
           step == IF st.t = "none" THEN 1 ELSE st.n IN
       IF step = 0 THEN Err("ValueError")
       ELSE IF ~(SliceBoundOk(lo) /\ SliceBoundOk(hi)) THEN Err("TypeError")
       ELSE LET Clamp(b, dflt, lower, upper) ==
                  IF b.t = "none" THEN dflt
                  ELSE LET r == IF b.n < 0 THEN b.n + n ELSE b.n IN
                       IF r < lower THEN lower ELSE IF r > upper THEN upper ELSE r
                start == IF step > 0 THEN Clamp(lo, 0, 0, n) ELSE Clamp(lo, n - 1, -1, n - 1)
                stop  == IF step > 0 THEN Clamp(hi, n, 0, n) ELSE Clamp(hi, -1, -1, n - 1)
            IN [t |-> s.t, e |-> Take(s.e, start, stop, step)]

-----------------------------------------------------------------------------
(* ASTs and evaluation *)
NoneN == [k |-> "none"]

RECURSIVE Eval(_, _)
RECURSIVE EvalCmp(_, _, _, _, _)
RECURSIVE EvalBool(_, _, _, _)
RECURSIVE EvalElts(_, _, _, _)

Eval(nd, x) ==
  CASE nd.k = "const" -> nd.v
    [] nd.k = "x"     -> x
    [] nd.k = "none"  -> NoneV
    [] nd.k = "un"    -> UnVal(nd.op, Eval(nd.a, x))
    [] nd.k = "bin"   -> LET v == Eval(nd.a, x) IN
                         IF IsErr(v) THEN v        \* left operand is evaluated first
                         ELSE IF IsSkip(v) THEN Skip   \* value outside the modelled fragment: Python may or may not raise here, no verdict
                         ELSE BinVal(nd.op, v, Eval(nd.b, x))
    [] nd.k = "cmp"   -> LET v == Eval(nd.es[1], x) IN
                         IF IsErr(v) THEN v ELSE IF IsSkip(v) THEN Skip
                         ELSE EvalCmp(nd, x, 1, v, FALSE)
    [] nd.k = "bool"  -> EvalBool(nd, x, 1, FALSE)
    [] nd.k = "idx"   -> LET s == Eval(nd.a, x) IN
                         IF IsErr(s) THEN s ELSE IF IsSkip(s) THEN Skip ELSE IdxVal(s, Eval(nd.i, x))
    [] nd.k = "slice" -> LET s == Eval(nd.a, x) IN
                         IF IsErr(s) THEN s ELSE IF IsSkip(s) THEN Skip
                         ELSE LET lo == Eval(nd.lo, x) IN
                              IF lo.t = "err" THEN lo ELSE IF lo.t = "skip" THEN Skip
                              ELSE LET hi == Eval(nd.hi, x) IN
                                   IF hi.t = "err" THEN hi ELSE IF hi.t = "skip" THEN Skip
                                   ELSE SliceVal(s, lo, hi, Eval(nd.st, x))
    [] nd.k = "tuple" -> EvalElts(nd.es, x, 1, <<>>)
    [] nd.k = "list"  -> LET r == EvalElts(nd.es, x, 1, <<>>) IN
                         IF r.t = "tup" THEN Lst(r.e) ELSE r

(* chained comparison: operand j+1 evaluated at most once, short circuit on the first false link *)
EvalCmp(nd, x, j, left, sawSkip) ==
  IF j > Len(nd.ops) THEN (IF sawSkip THEN Skip ELSE B(TRUE))
  ELSE LET right == Eval(nd.es[j + 1], x) IN
       IF IsErr(right) THEN (IF sawSkip THEN Skip ELSE right)
       ELSE IF IsSkip(right) THEN Skip
       ELSE LET r == CmpVal(nd.ops[j], left, right) IN
            IF IsErr(r) THEN r
            ELSE IF r.n = 0 THEN B(FALSE)
            ELSE EvalCmp(nd, x, j + 1, right, sawSkip)

(* and/or return the deciding operand itself *)
EvalBool(nd, x, j, dummy) ==
  LET v == Eval(nd.es[j], x) IN
  IF IsErr(v) \/ IsSkip(v) THEN v
  ELSE IF j = Len(nd.es) THEN v
  ELSE IF nd.op = "and" THEN (IF ~Truthy(v) THEN v ELSE EvalBool(nd, x, j + 1, dummy))
  ELSE (IF Truthy(v) THEN v ELSE EvalBool(nd, x, j + 1, dummy))

EvalElts(es, x, j, acc) ==
  IF j > Len(es) THEN Tup(acc)
  ELSE LET v == Eval(es[j], x) IN
       IF IsErr(v) \/ IsSkip(v) THEN v ELSE EvalElts(es, x, j + 1, Append(acc, v))

-----------------------------------------------------------------------------
(* Printer with minimal parentheses.  Levels (Python's grammar): or 1, and 2, not 3,   *)
(* comparison 4, ^ 6, + - 8, * / mod 9, unary + - 10, ** 11, atom / subscript 12.          *)
Level(nd) ==
  CASE nd.k = "const" -> nd.lvl
    [] nd.k = "x" -> 12
    [] nd.k = "un" -> IF nd.op = "not" THEN 3 ELSE 10
    [] nd.k = "bin" -> (CASE nd.op \in {"+", "-"} -> 8 [] nd.op \in {"*", "/", "%"} -> 9
                          [] nd.op = "**" -> 11 [] nd.op = "^" -> 6)
    [] nd.k = "cmp" -> 4
    [] nd.k = "bool" -> IF nd.op = "or" THEN 1 ELSE 2
    [] nd.k \in {"idx", "slice", "tuple", "list"} -> 12
    [] nd.k = "none" -> 12

RECURSIVE Src(_)
RECURSIVE JoinSrc(_, _, _)
Paren(nd, min) == IF Level(nd) >= min THEN Src(nd) ELSE "(" \o Src(nd) \o ")"
JoinSrc(es, sep, min) == IF Len(es) = 0 THEN ""
                         ELSE IF Len(es) = 1 THEN Paren(es[1], min)
                         ELSE Paren(es[1], min) \o sep \o JoinSrc(Tail(es), sep, min)
RECURSIVE CmpSrc(_, _)
CmpSrc(nd, j) == IF j > Len(nd.ops) THEN ""
                 ELSE " " \o nd.ops[j] \o " " \o Paren(nd.es[j + 1], 5) \o CmpSrc(nd, j + 1)
Src(nd) ==
  CASE nd.k = "const" -> nd.s
    [] nd.k = "x" -> "x"
    [] nd.k = "none" -> ""
    [] nd.k = "un" -> IF nd.op = "not" THEN "not " \o Paren(nd.a, 3) ELSE nd.op \o Paren(nd.a, 10)
    [] nd.k = "bin" -> IF nd.op = "**" THEN Paren(nd.a, 12) \o " ** " \o Paren(nd.b, 10)
                       ELSE Paren(nd.a, Level(nd)) \o " " \o nd.op \o " " \o Paren(nd.b, Level(nd) + 1)
    [] nd.k = "cmp" -> Paren(nd.es[1], 5) \o CmpSrc(nd, 1)
    [] nd.k = "bool" -> JoinSrc(nd.es, " " \o nd.op \o " ", Level(nd) + 1)
    [] nd.k = "idx" -> Paren(nd.a, 12) \o "[" \o Src(nd.i) \o "]"
    [] nd.k = "slice" -> Paren(nd.a, 12) \o "[" \o Src(nd.lo) \o ":" \o Src(nd.hi)
                         \o (IF nd.st.k = "none" THEN "" ELSE ":" \o Src(nd.st)) \o "]"
    [] nd.k = "tuple" -> IF Len(nd.es) = 1 THEN "(" \o Src(nd.es[1]) \o ",)"
                         ELSE "(" \o JoinSrc(nd.es, ", ", 1) \o ")"
    [] nd.k = "list" -> "[" \o JoinSrc(nd.es, ", ", 1) \o "]"

-----------------------------------------------------------------------------
(* The stack machine that enumerates ASTs *)
VARIABLES stack, ntok
vars == <<stack, ntok>>

IntLeaf(n) == [k |-> "const", v |-> I(n), s |-> ToString(n), lvl |-> IF n < 0 THEN 10 ELSE 12]
Leaves ==
  { IntLeaf(n) : n \in (IF Rich THEN -2..3 ELSE {-1, 0, 2}) }
  \cup { [k |-> "const", v |-> B(TRUE), s |-> "True", lvl |-> 12] }
  \cup (IF Rich THEN { [k |-> "const", v |-> B(FALSE), s |-> "False", lvl |-> 12],
                       [k |-> "const", v |-> Fl(1, 2), s |-> "0.5", lvl |-> 12],
                       [k |-> "const", v |-> Fl(3, 2), s |-> "1.5", lvl |-> 12],
                       [k |-> "const", v |-> Fl(2, 1), s |-> "2.0", lvl |-> 12] } ELSE {})
  \cup { [k |-> "x"] }
  \cup { [k |-> "idx", a |-> [k |-> "x"], i |-> IntLeaf(n)] : n \in (IF Rich THEN {0, 1, -1, 2} ELSE {0, -1}) }

BinOps == IF Rich THEN {"+", "-", "*", "/", "%", "**", "^"} ELSE {"+", "-", "*", "/", "%", "**", "^"}
CmpOps == {"==", "!=", "<", "<=", ">", ">="}
UnOps == {"-", "+", "not"}
BoolOps == {"and", "or"}

Top(k) == SubSeq(stack, Len(stack) - k + 1, Len(stack))
Pop(k) == SubSeq(stack, 1, Len(stack) - k)

Init == stack = <<>> /\ ntok = 0

Push == \E l \in Leaves : stack' = Append(stack, l) /\ ntok' = ntok + 1
Un == /\ Len(stack) >= 1
      /\ \E op \in UnOps : stack' = Append(Pop(1), [k |-> "un", op |-> op, a |-> Top(1)[1]])
      /\ ntok' = ntok + 1
Bin == /\ Len(stack) >= 2
       /\ \E op \in BinOps : stack' = Append(Pop(2), [k |-> "bin", op |-> op, a |-> Top(2)[1], b |-> Top(2)[2]])
       /\ ntok' = ntok + 1
Cmp2 == /\ Len(stack) >= 2
        /\ \E op \in CmpOps : stack' = Append(Pop(2), [k |-> "cmp", ops |-> <<op>>, es |-> Top(2)])
        /\ ntok' = ntok + 1
Cmp3 == /\ Len(stack) >= 3
        /\ \E o1 \in CmpOps, o2 \in CmpOps : stack' = Append(Pop(3), [k |-> "cmp", ops |-> <<o1, o2>>, es |-> Top(3)])
        /\ ntok' = ntok + 1
Bool2 == /\ Len(stack) >= 2
         /\ \E op \in BoolOps : stack' = Append(Pop(2), [k |-> "bool", op |-> op, es |-> Top(2)])
         /\ ntok' = ntok + 1
Bool3 == /\ Len(stack) >= 3
         /\ \E op \in BoolOps : stack' = Append(Pop(3), [k |-> "bool", op |-> op, es |-> Top(3)])
         /\ ntok' = ntok + 1
Idx == /\ Len(stack) >= 2
       /\ stack' = Append(Pop(2), [k |-> "idx", a |-> Top(2)[1], i |-> Top(2)[2]])
       /\ ntok' = ntok + 1
(* slices: which of lower / upper / step are present; operands popped in order a, lo, hi, st *)
SliceA ==
  \E hasLo \in BOOLEAN, hasHi \in BOOLEAN, hasSt \in BOOLEAN :
    LET cnt == 1 + (IF hasLo THEN 1 ELSE 0) + (IF hasHi THEN 1 ELSE 0) + (IF hasSt THEN 1 ELSE 0)
        t == Top(cnt)
        pLo == 2
        pHi == 2 + (IF hasLo THEN 1 ELSE 0)
        pSt == pHi + (IF hasHi THEN 1 ELSE 0)
    IN /\ Len(stack) >= cnt
       /\ stack' = Append(Pop(cnt), [k |-> "slice", a |-> t[1],
                                     lo |-> IF hasLo THEN t[pLo] ELSE NoneN,
                                     hi |-> IF hasHi THEN t[pHi] ELSE NoneN,
                                     st |-> IF hasSt THEN t[pSt] ELSE NoneN])
       /\ ntok' = ntok + 1
MkTuple == \E n \in 0..3 : /\ Len(stack) >= n
                           /\ stack' = Append(Pop(n), [k |-> "tuple", es |-> Top(n)])
                           /\ ntok' = ntok + 1
MkList == \E n \in 0..2 : /\ Len(stack) >= n /\ Rich
                          /\ stack' = Append(Pop(n), [k |-> "list", es |-> Top(n)])
                          /\ ntok' = ntok + 1

Next == /\ ntok < MaxTok
        /\ (Push \/ Un \/ Bin \/ Cmp2 \/ Cmp3 \/ Bool2 \/ Bool3 \/ Idx \/ SliceA \/ MkTuple \/ MkList)
Spec == Init /\ [][Next]_vars

-----------------------------------------------------------------------------
RECURSIVE XTuples(_)
XTuples(n) == IF n = 0 THEN {<<>>}
              ELSE XTuples(n - 1) \cup { Append(t, v) : t \in { s \in XTuples(n - 1) : Len(s) = n - 1 }, v \in XVals }
XAsVal(t) == Tup([i \in 1..Len(t) |-> I(t[i])])

XList == SetToSeq(XTuples(XLen))
Complete == Len(stack) = 1

(* Theorems about the reference semantics, checked on every enumerated expression     *)
(* (all in one invariant so that each expression is evaluated once per outcome tuple): *)
(* (1) evaluation is total: a value, an error class, or outside the model;             *)
(* (2) comparisons always yield booleans;                                               *)
(* (3) a conjunction (disjunction) whose first operand is falsy (truthy) is that       *)
(*     operand, whatever follows (short circuit).                                       *)
ValueOK(v) == v.t \in {"int", "bool", "float", "tup", "list", "err", "skip"}
Vals == [i \in 1..Len(XList) |-> Eval(stack[1], XAsVal(XList[i]))]
Theorems(vals) ==
  /\ \A i \in 1..Len(XList) : ValueOK(vals[i])
  /\ stack[1].k = "cmp" => \A i \in 1..Len(XList) : vals[i].t \in {"bool", "err", "skip"}
  /\ stack[1].k = "bool" =>
       \A i \in 1..Len(XList) :
          LET v1 == Eval(stack[1].es[1], XAsVal(XList[i])) IN
          (~IsErr(v1) /\ ~IsSkip(v1) /\ ((stack[1].op = "and" /\ ~Truthy(v1)) \/ (stack[1].op = "or" /\ Truthy(v1))))
             => vals[i] = v1

RECURSIVE Enc(_)
RECURSIVE EncSeq(_)
EncSeq(e) == IF Len(e) = 0 THEN "" ELSE IF Len(e) = 1 THEN Enc(e[1]) ELSE Enc(e[1]) \o "," \o EncSeq(Tail(e))
Enc(v) == CASE v.t = "int" -> "i" \o ToString(v.n)
            [] v.t = "bool" -> "b" \o ToString(v.n)
            [] v.t = "float" -> "f" \o ToString(v.n) \o "/" \o ToString(v.d)
            [] v.t = "tup" -> "t(" \o EncSeq(v.e) \o ")"
            [] v.t = "list" -> "l(" \o EncSeq(v.e) \o ")"
            [] v.t = "err" -> "e" \o v.c
            [] v.t = "skip" -> "s"

Check == Complete =>
   LET vals == Vals IN
   /\ Theorems(vals)
   /\ PrintT(<<"EXPR", ToJson([src |-> Src(stack[1]), ntok |-> ntok,
                               vals |-> [i \in 1..Len(XList) |-> Enc(vals[i])]])>>)
ASSUME PrintT(<<"XLIST", ToJson(XList)>>)
=============================================================================
